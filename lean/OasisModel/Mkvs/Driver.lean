import OasisModel.Proto
import OasisModel.Mkvs.Overlay
import OasisModel.Mkvs.Key
import OasisModel.Mkvs.Cache
/-
Driver for the MKVS model (mode `mkvs`, executable `om_mkvs`), used by harness/cmd/mkvsdrv for
C02, C03 and C13.  Every line carries the operation *and* what the real tree answered; the model
answers `ok` or `DIVERGE <detail>` (after a divergence: `skip`).

Handles: level 0 is the tree, level i the i-th overlay (NewOverlay on level i-1).
Encoding: bytes in hex, `-` = empty byte string, `nil` = absent; item lists `k:v,k:v` or `.`;
write-log entries `k:v` / `k:~` (delete).

  new                          fresh empty tree (drops overlays, keeps the table of committed roots)
  insert L K V | remove L K
  remx L K ANS                 RemoveExisting, ANS = previous value
  get L K ANS
  iter L K N ITEMS             Seek K then up to N items
  onew | ocommit | odiscard    push overlay | Commit outermost overlay (stays, empty) | Close it
  ocopy | oswap                Copy(nil) of the outermost overlay kept aside (same inner handle) |
                               exchange the outermost overlay with that copy; onew/odiscard/new/reopen drop it
  commit HASH LOG              Tree.Commit: root hash and returned write log (sorted by key)
  reopen HASH                  NewWithRoot at a committed root (no overlays open)
  applywl LOG                  ApplyWriteLog on the tree, entries in the given order
  getwl H1 H2 LOG              NodeDB.GetWriteLog(H1 -> H2): sub-log of Commit's log that maps contents(H1) to contents(H2)
  getwlf H1 H2 must|may RES    GetWriteLog(H1 -> H2) where H2 is one of several candidate roots of a
                               version (forks). RES is a log, or `NOTSERVED` (the backend's "write log not
                               found" / "not finalized" / "root not found" error). Admissible outcomes:
                               a served log must be a sub-log of the log Commit built for exactly this
                               pair and map contents(H1) to contents(H2) — never another fork's —;
                               `NOTSERVED` is admissible only with `may` (H2 not finalized, or discarded);
                               for the finalized candidate (`must`) the log has to be served.
                               When H2 was committed on top of another candidate of the same version the
                               served log may be the composition of the two recorded logs (two hops).
  wf                           model self-check: current trie is in canonical form
  shape                        answers `ok h=<internal nodes on the longest path> internal=<internal nodes> keys=<n>`
  needs                        from here on the answer `ok` to an operation that writes to the tree
                               (insert/remove/remx at level 0, applywl, ocommit of an overlay directly on the
                               tree) carries ` need=<n>`: the node-cache capacity that suffices for it on the
                               tree it finds (`CacheNeed`, OasisModel/Mkvs/Cache.lean)
  ksplit K SP KL PRE SUF | kmerge K KL K2 K2L RES | kcpl K KL K2 K2L N | kappend K KL B RES | kgetbit K I B
                               node.Key byte-level operations: answers compared with the byte-level
                               transcription (`Key.*`) and with the bit-list operations
-/
namespace OasisModel.Mkvs.Driver
open OasisModel.Proto OasisModel.Mkvs

structure St where
  tree : TreeState := {}
  layers : List Layer := []          -- outermost first
  lastRoot : Bytes := rootHash .nil  -- hash of the root the tree was opened at / last committed
  roots : List (Bytes × Trie) := [(rootHash .nil, .nil)]
  logs : List (Bytes × Bytes × List LogEntry) := []
  /-- `ocopy`: an isolated copy of the outermost overlay over the same inner handle. -/
  spare : Option Layer := none
  dead : Bool := false
  needs : Bool := false

def showOpt : Option Bytes → String
  | none => "nil"
  | some b => showHex b

def parseOpt (s : String) : Option (Option Bytes) :=
  if s == "nil" then some none else (parseHex s).map some

def showItems (l : List KV) : String :=
  if l.isEmpty then "." else ",".intercalate (l.map fun kv => showHex kv.1 ++ ":" ++ showHex kv.2)

def parseItems (s : String) : Option (List KV) :=
  if s == "." then some [] else
  (s.splitOn ",").mapM fun e =>
    match e.splitOn ":" with
    | [a, b] => do
      let k ← parseHex a
      let v ← parseHex b
      pure (k, v)
    | _ => none

def showLog (l : List LogEntry) : String :=
  if l.isEmpty then "." else ",".intercalate (l.map fun e => showHex e.1 ++ ":" ++
    (match e.2 with | none => "~" | some v => showHex v))

def parseLog (s : String) : Option (List LogEntry) :=
  if s == "." then some [] else
  (s.splitOn ",").mapM fun e =>
    match e.splitOn ":" with
    | [a, b] => do
      let k ← parseHex a
      if b == "~" then pure (k, none) else do
        let v ← parseHex b
        pure (k, some v)
    | _ => none

def sortLog (l : List LogEntry) : List LogEntry := l.mergeSort (fun a b => !decide (b.1 < a.1))

/-- Run `f` on the handle at level `lvl` (the `lvl` innermost layers), re-attaching the outer layers. -/
def atLevel {α} (st : St) (lvl : Nat) (f : TreeState → List Layer → (TreeState × List Layer) × α) :
    Option (St × α) :=
  let n := st.layers.length
  if lvl > n then none else
  let upper := st.layers.take (n - lvl)
  let lower := st.layers.drop (n - lvl)
  let r := f st.tree lower
  some ({ st with tree := r.1.1, layers := upper ++ r.1.2 }, r.2)

def stepCore (st : St) (line : String) : St × String :=
  if st.dead then (st, "skip") else
  let fail (msg : String) : St × String := ({ st with dead := true }, "DIVERGE " ++ msg)
  let ws := words line
  if ws.any (fun w => w.startsWith "ERR" || w.startsWith "PANIC") then fail ("implementation error or panic: " ++ line.trimAscii.toString) else
  match ws with
  | [] => (st, "ok")
  | ["new"] => ({ st with tree := {}, layers := [], lastRoot := rootHash .nil, spare := none }, "ok")
  | ["insert", l, k, v] =>
    match l.toNat?, parseHex k, parseHex v with
    | some l, some k, some v =>
      match atLevel st l (fun b ls => (Stack.insert b ls k v, ())) with
      | some (st', _) => (st', "ok")
      | none => fail "bad-level"
    | _, _, _ => fail "bad-op"
  | ["remove", l, k] =>
    match l.toNat?, parseHex k with
    | some l, some k =>
      match atLevel st l (fun b ls => (Stack.remove b ls k, ())) with
      | some (st', _) => (st', "ok")
      | none => fail "bad-level"
    | _, _ => fail "bad-op"
  | ["remx", l, k, ans] =>
    match l.toNat?, parseHex k, parseOpt ans with
    | some l, some k, some ans =>
      match atLevel st l (fun b ls => Stack.removeExisting b ls k) with
      | some (st', prev) =>
        if prev == ans then (st', "ok") else fail s!"remove-existing model={showOpt prev} impl={showOpt ans}"
      | none => fail "bad-level"
    | _, _, _ => fail "bad-op"
  | ["get", l, k, ans] =>
    match l.toNat?, parseHex k, parseOpt ans with
    | some l, some k, some ans =>
      match atLevel st l (fun b ls => ((b, ls), Stack.get b ls k)) with
      | some (_, v) =>
        if v == ans then (st, "ok") else fail s!"get model={showOpt v} impl={showOpt ans}"
      | none => fail "bad-level"
    | _, _, _ => fail "bad-op"
  | ["iter", l, k, n, items] =>
    match l.toNat?, parseHex k, n.toNat?, parseItems items with
    | some l, some k, some n, some items =>
      -- compared with the specification (suffix of the sorted contents) and with the iterator
      -- machine of iterator.go (`Iter.iterate`) at the bottom of the overlay stack
      match atLevel st l (fun b ls => ((b, ls), (Stack.iter b ls k, Stack.iterMachine b ls k))) with
      | some (_, (m, mm)) =>
        let m := m.take n
        let mm := mm.take n
        if m != items then fail s!"iterate model={showItems m} impl={showItems items}"
        else if mm != items then fail s!"iterate-machine model={showItems mm} impl={showItems items}"
        else (st, "ok")
      | none => fail "bad-level"
    | _, _, _, _ => fail "bad-op"
  | ["onew"] => ({ st with layers := {} :: st.layers, spare := none }, "ok")
  | ["ocopy"] =>
    match st.layers with
    | [] => fail "bad-op: no overlay"
    | L :: _ => ({ st with spare := some L.copy }, "ok")
  | ["oswap"] =>
    match st.layers, st.spare with
    | L :: rest, some S => ({ st with layers := S :: rest, spare := some L }, "ok")
    | _, _ => fail "bad-op: nothing to swap"
  | ["ocommit"] =>
    match st.layers with
    | [] => fail "bad-op: no overlay"
    | _ :: _ =>
      let r := Stack.commitTop st.tree st.layers
      ({ st with tree := r.1, layers := {} :: r.2 }, "ok")
  | ["odiscard"] =>
    match st.layers with
    | [] => fail "bad-op: no overlay"
    | _ :: rest => ({ st with layers := rest, spare := none }, "ok")
  | ["commit", h, log] =>
    match parseHex h, parseLog log with
    | some h, some log =>
      let r := st.tree.commit
      let mh := r.2.1
      let ml := sortLog r.2.2
      if mh != h then fail s!"root-hash model={showHex mh} impl={showHex h}"
      else if ml != sortLog log then fail s!"write-log model={showLog ml} impl={showLog (sortLog log)}"
      else ({ st with tree := r.1, lastRoot := mh, roots := (mh, r.1.root) :: st.roots,
                      logs := (st.lastRoot, mh, ml) :: st.logs }, "ok")
    | _, _ => fail "bad-op"
  | ["reopen", h] =>
    match parseHex h with
    | some h =>
      match st.roots.lookup h with
      | some t => ({ st with tree := { root := t }, layers := [], lastRoot := h, spare := none }, "ok")
      | none => fail s!"reopen: root {showHex h} was never committed in the model"
    | none => fail "bad-op"
  | ["applywl", log] =>
    match parseLog log with
    | some log => ({ st with tree := st.tree.applyWriteLog log }, "ok")
    | none => fail "bad-op"
  | ["getwl", h1, h2, log] =>
    -- The served log must be a sub-list of the log `Commit` built (same entries for the keys it
    -- mentions, unique keys) and, applied to the contents of the first root, give the contents of
    -- the second root (C13). Entries `Commit` reported for keys whose value did not change may be
    -- missing from the served log.
    match parseHex h1, parseHex h2, parseLog log with
    | some h1, some h2, some log =>
      -- (several commits may have produced the same pair of roots: any of their logs is a log of the pair)
      match st.logs.filter (fun e => e.1 == h1 && e.2.1 == h2), st.roots.lookup h1, st.roots.lookup h2 with
      | e :: es, some t1, some t2 =>
        let served := sortLog log
        if !((e :: es).any (fun e => served.all (fun x => e.2.2.contains x))) then
          fail s!"db-write-log has entries Commit did not report: model={showLog e.2.2} impl={showLog served}"
        else if (served.map (·.1)).eraseDups.length != served.length then
          fail s!"db-write-log has duplicate keys: impl={showLog served}"
        else if applyLogSpec t1.toList served != t2.toList then
          fail s!"db-write-log does not map the first root's contents to the second's: model={showLog e.2.2} impl={showLog served}"
        else (st, "ok")
      | _, _, _ => fail "getwl: no such transition in the model"
    | _, _, _ => fail "bad-op"
  | ["getwlf", h1, h2, mode, res] =>
    match parseHex h1, parseHex h2 with
    | some h1, some h2 =>
      if res == "NOTSERVED" then
        if mode == "may" then (st, "ok")
        else fail s!"fork-write-log of the finalized root {showHex h2} is not served"
      else
      match parseLog res with
      | some log =>
        match st.logs.filter (fun e => e.1 == h1 && e.2.1 == h2), st.roots.lookup h1, st.roots.lookup h2 with
        | e :: es, some t1, some t2 =>
          let served := sortLog log
          if applyLogSpec t1.toList served != t2.toList then
            fail s!"fork-write-log served for {showHex h2} does not reach it: expected={showLog e.2.2} impl={showLog served}"
          else if !((e :: es).any (fun e => served.all (fun x => e.2.2.contains x))) then
            fail s!"fork-write-log has entries Commit did not report for this root: model={showLog e.2.2} impl={showLog served}"
          else if (served.map (·.1)).eraseDups.length != served.length then
            fail s!"fork-write-log has duplicate keys: impl={showLog served}"
          else (st, "ok")
        | [], some t1, some t2 =>
          -- no log recorded for exactly this pair: H2 was committed on top of another candidate of the
          -- same version (a chain inside the version), and the backend serves the composition of the
          -- two recorded logs (GetWriteLog follows up to two hops)
          let via := (st.logs.filter (fun a => a.1 == h1)).flatMap (fun a =>
            (st.logs.filter (fun b => b.1 == a.2.1 && b.2.1 == h2)).map (fun b => a.2.2 ++ b.2.2))
          let served := sortLog log
          if via.isEmpty then fail "getwlf: no such transition in the model"
          else if applyLogSpec t1.toList served != t2.toList then
            fail s!"fork-write-log served for {showHex h2} through an intermediate root does not reach it: impl={showLog served}"
          else if !(via.any (fun u => served.all (fun x => u.contains x))) then
            fail s!"fork-write-log has entries Commit did not report on the way to this root: impl={showLog served}"
          else if (served.map (·.1)).eraseDups.length != served.length then
            fail s!"fork-write-log has duplicate keys: impl={showLog served}"
          else (st, "ok")
        | _, _, _ => fail "getwlf: no such transition in the model"
      | none => fail "bad-op"
    | _, _ => fail "bad-op"
  | ["ksplit", k, sp, kl, pre, suf] =>
    match parseHex k, sp.toNat?, kl.toNat?, parseHex pre, parseHex suf with
    | some k, some sp, some kl, some pre, some suf =>
      let m := Key.split k sp kl
      let bitsPre := packBits ((toBits k).take sp)
      let bitsSuf := packBits (((toBits k).take kl).drop sp)
      if m != (pre, suf) then fail s!"key-split bytes-model=({showHex m.1},{showHex m.2}) impl=({showHex pre},{showHex suf})"
      else if (bitsPre, bitsSuf) != (pre, suf) then fail s!"key-split bits-model=({showHex bitsPre},{showHex bitsSuf}) impl=({showHex pre},{showHex suf})"
      else (st, "ok")
    | _, _, _, _, _ => fail "bad-op"
  | ["kmerge", k, kl, k2, k2l, res] =>
    match parseHex k, kl.toNat?, parseHex k2, k2l.toNat?, parseHex res with
    | some k, some kl, some k2, some k2l, some res =>
      let m := Key.merge k kl k2 k2l
      let b := packBits ((toBits k).take kl ++ (toBits k2).take k2l)
      if m != res then fail s!"key-merge bytes-model={showHex m} impl={showHex res}"
      else if b != res then fail s!"key-merge bits-model={showHex b} impl={showHex res}"
      else (st, "ok")
    | _, _, _, _, _ => fail "bad-op"
  | ["kcpl", k, kl, k2, k2l, n] =>
    match parseHex k, kl.toNat?, parseHex k2, k2l.toNat?, n.toNat? with
    | some k, some kl, some k2, some k2l, some n =>
      let m := Key.commonPrefixLen k kl k2 k2l
      let b := lcp ((toBits k).take kl) ((toBits k2).take k2l)
      if m != n then fail s!"key-cpl bytes-model={m} impl={n}"
      else if b != n then fail s!"key-cpl bits-model={b} impl={n}"
      else (st, "ok")
    | _, _, _, _, _ => fail "bad-op"
  | ["kappend", k, kl, b, res] =>
    match parseHex k, kl.toNat?, parseHex res with
    | some k, some kl, some res =>
      let m := Key.appendBit k kl (b == "1")
      let bb := Iter.appendBit k kl (b == "1")
      if m != res then fail s!"key-appendbit bytes-model={showHex m} impl={showHex res}"
      else if bb != res then fail s!"key-appendbit bits-model={showHex bb} impl={showHex res}"
      else (st, "ok")
    | _, _, _ => fail "bad-op"
  | ["kgetbit", k, i, b] =>
    match parseHex k, i.toNat? with
    | some k, some i =>
      let m := Key.getBit k i
      let bb := Iter.getBit k i
      if m != (b == "1") then fail s!"key-getbit bytes-model={m} impl={b}"
      else if bb != (b == "1") then fail s!"key-getbit bits-model={bb} impl={b}"
      else (st, "ok")
    | _, _ => fail "bad-op"
  | ["wf"] =>
    if wfAtB [] st.tree.root then (st, "ok") else fail "model trie not in canonical form"
  | ["shape"] =>
    (st, s!"ok h={st.tree.root.height} internal={st.tree.root.internalCount} keys={st.tree.root.toList.length}")
  | ["needs"] => ({ st with needs := true }, "ok")
  | _ => fail "bad-op"

/-- Node-cache capacity that suffices for the operation on the tree it finds (`none`: the line does
not write to the tree). -/
def needOf (st : St) (ws : List String) : Option Nat :=
  match ws with
  | ["insert", "0", k, _] => (parseHex k).map (CacheNeed.insert st.tree.root)
  | ["remove", "0", k] => (parseHex k).map (CacheNeed.remove st.tree.root)
  | ["remx", "0", k, _] => (parseHex k).map (CacheNeed.remove st.tree.root)
  | ["applywl", log] => (parseLog log).map (CacheNeed.log st.tree)
  | ["ocommit"] =>
    match st.layers with
    | [L] => some (CacheNeed.overlayCommit st.tree L)
    | _ => none
  | _ => none

def step (st : St) (line : String) : St × String :=
  let r := stepCore st line
  if st.needs && r.2 == "ok" then
    match needOf st (words line) with
    | some n => (r.1, s!"ok need={n}")
    | none => r
  else r

def main : IO Unit := loop step {}

end OasisModel.Mkvs.Driver
