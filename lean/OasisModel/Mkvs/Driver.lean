import OasisModel.Proto
/- C02/C03/C13 trie, overlay, write log: driver stub (not built yet). -/
namespace OasisModel.Mkvs.Driver
def main : IO Unit := IO.eprintln "mode not implemented"
end OasisModel.Mkvs.Driver
