import OasisModel.Mkvs.Overlay
/-
What one tree operation asks of the node cache (go/storage/mkvs/cache.go), measured on the model
trie.  Used by harness/cmd/mkvsdrv to tell the known finding D2b ("node cache smaller than what one
write must hold") from any other way in which eviction changes an answer (C02/C03), and by the
generator to choose capacities between "one operation's need" and "the whole tree".

The cache keeps every *clean* internal node that is in memory on one LRU list bounded by
`nodeCapacity` (dirty nodes are taken off the list by `rollbackNode` and cannot be evicted).  An
operation walks down from the pending root through `derefNodePtr`, which moves a node that is on the
list to the front (`useNode`) and loads a node that is not (`db.GetNode` + `commitNode`, which first
evicts from the back of the list while `internalNodeCount + 1 > nodeCapacity`).  Evicting a node
sets `ptr.Node = nil` for it and for every cached node below it.

`doInsert` and `doRemove` keep using the Go node object of every ancestor after the recursive call
returns (they store the returned child pointer into it and mark `ptr` dirty).  If an ancestor was
evicted in between, the pointer is marked dirty while `ptr.Node == nil`: a dead node, the subtree
is lost (D2b).  Reads (`doGet`, `doNext`) only follow the child pointers of the node objects they
hold, which eviction leaves in place, and re-dereference; they need no capacity.

How much capacity a write needs on the unchanged tree.  Let D be the number of distinct internal
nodes the operation dereferences.  `Insert`/`RemoveExisting` call `markPosition` first: the element F
at the front of the list is remembered and nodes loaded during the operation are inserted right
after F instead of at the front.  At any moment of the operation the list therefore reads

    [nodes of this operation that were cached and have been moved to the front] F
    [nodes loaded by this operation, latest first] [everything not touched by this operation]

(if F itself is dereferenced it moves to the front and loaded nodes follow it there; if F is made
dirty or evicted the position is reset and loaded nodes go to the front: in every case a node of
this operation stays ahead of every untouched node other than F).  Eviction takes from the back.
When the k-th distinct node is about to be loaded at most D-1 nodes of the operation are on the
list, plus F; with `nodeCapacity ≥ D + 1` a full list holds at least one untouched node behind them,
so the victim is untouched.  It is not an ancestor of a node of the operation (an operation starts at
the root, so ancestors of its nodes are its nodes), hence the recursive removal of the victim's cached
subtree touches no node of the operation either.  `need = D + 1`.

D for the two writes, as the code descends:
  * `doInsert` (insert.go:59): one dereference per internal node while the label matches, plus the
    node at which it stops (`insertDerefs`);
  * `doRemove` (remove.go:55): descends by lengths and single bits only (no label comparison) and,
    on the way back, dereferences *both* children of every node it went through (remove.go:110-117):
    the path plus every sibling that is an internal node (`removeDerefs`).
Embedded leaves and leaf children live on the separate value list and do not count.
-/
namespace OasisModel.Mkvs

namespace Trie

def isNode : Trie → Bool
  | .node .. => true
  | _ => false

/-- Number of internal nodes on the longest root-to-leaf path. -/
def height : Trie → Nat
  | .node _ _ l r => 1 + max l.height r.height
  | _ => 0

/-- Number of internal nodes. -/
def internalCount : Trie → Nat
  | .node _ _ l r => 1 + (l.internalCount + r.internalCount)
  | _ => 0

/-- Internal nodes dereferenced by `doInsert k` below bit depth `d`. -/
def insertDerefs (k : Bytes) : Trie → Nat → Nat
  | .node lab _ l r, d =>
    if lcp lab ((toBits k).drop d) = lab.length then
      let bl := d + lab.length
      match (toBits k).drop bl with
      | [] => 1
      | true :: _ => 1 + insertDerefs k r bl
      | false :: _ => 1 + insertDerefs k l bl
    else 1
  | _, _ => 0

/-- Internal nodes dereferenced by `doRemove k` below bit depth `d` (path and internal siblings). -/
def removeDerefs (k : Bytes) : Trie → Nat → Nat
  | .node lab _ l r, d =>
    let bl := d + lab.length
    let n := (toBits k).length
    if n < bl then 1
    else if n = bl then 1 + (l.isNode.toNat + r.isNode.toNat)
    else match (toBits k).drop bl with
      | true :: _ => 1 + (removeDerefs k r bl + l.isNode.toNat)
      | _ => 1 + (removeDerefs k l bl + r.isNode.toNat)
  | _, _ => 0

end Trie

namespace CacheNeed

/-- Node capacity that suffices for `Insert k` on tree `t`. -/
def insert (t : Trie) (k : Bytes) : Nat := t.insertDerefs k 0 + 1

/-- Node capacity that suffices for `Remove k` / `RemoveExisting k` on tree `t`. -/
def remove (t : Trie) (k : Bytes) : Nat := t.removeDerefs k 0 + 1

/-- Bound that holds for every single write on `t`: a descent follows child pointers from the root,
so it dereferences at most `height` path nodes and at most as many siblings. -/
def anyWrite (t : Trie) : Nat := 2 * t.height + 1

/-- A write log applied entry by entry in the given order (`ApplyWriteLog`, tree.go:107): the largest
need of any step, each measured on the tree that step finds. -/
def log (s : TreeState) (l : List LogEntry) : Nat :=
  (l.foldl (fun (acc : TreeState × Nat) e =>
    let n := match e.2 with
      | some _ => insert acc.1.root e.1
      | none => remove acc.1.root e.1
    (acc.1.applyEntry e, max acc.2 n)) (s, 0)).2

/-- `Commit` of an overlay that sits directly on the tree (overlay.go:114): inserts in key order,
measured step by step; the removals follow in Go map order, so they are bounded by `anyWrite` of
the tree after the inserts (removing keys never lengthens a path). -/
def overlayCommit (s : TreeState) (L : Layer) : Nat :=
  let ins := L.commitOps.filter (fun e => e.2.isSome)
  let dels := L.commitOps.filter (fun e => e.2.isNone)
  let s1 := s.applyWriteLog ins
  max (log s ins) (if dels.isEmpty then 0 else anyWrite s1.root)

end CacheNeed

end OasisModel.Mkvs
