import OasisModel.Mkvs.Proof
import OasisModel.Mkvs.Iter
/-
C04 — the tree iterator of a client that holds only verified nodes (core Lean only).

`ptDoNext` / `ptNextLoop` / `ptIterate` are `doNext` / `Next` / `for it.Seek(k); it.Valid(); it.Next()`
of iterator.go run on a rebuilt pointer tree `PT` (what `VerifyProof` + `MergeVerifiedSubtree` leave in
the cache of a tree created with `NewWithRoot(remote, nil, root)`), with no syncer left: dereferencing
a hash-only pointer is the outcome `none` ("needs another fetch"; in Go an error or a further
`SyncIterate`). The control flow is the one of `OasisModel/Mkvs/Iter.lean` (`viaLeaf`, `fromAt`,
`pushAtom`); the label bits of a rebuilt node are the first `bits` bits of its raw label bytes.
-/
namespace OasisModel.Mkvs

/-- `pathAtom` over rebuilt nodes. -/
structure PTAtom where
  t : PT
  path : Bits
  st : Iter.VState
  deriving Repr, Inhabited

/-- Outcome of a step: `none` = a hash-only pointer had to be dereferenced; `some r` = the result `r`
of the plain machine (item found with resume stack, or nothing). -/
abbrev PTRes := Option (Option (KV × List PTAtom))

def ptPush (self : PTAtom) : PTRes → PTRes
  | none => none
  | some none => some none
  | some (some (kv, pos)) => some (some (kv, pos ++ [self]))

/-- Try the node's own leaf pointer. -/
def ptViaLeaf (eh : Bytes) (self : PTAtom) (lf : PT) (newPath : Bits) (key : Bytes) : PTRes :=
  if Iter.keyNotLonger newPath key || Iter.takeFirst newPath key then
    match lf with
    | .nil => some none
    | .leaf k v => some (if k < key then none else some ((k, v), [{ self with st := .at }]))
    | .hash h => if h = eh then some none else none
    | .node .. => none
  else some none

/-- The body of `case visitAt`. -/
def ptFromAt (self : PTAtom) (newPath : Bits) (key : Bytes) (goL goR : Bytes → PTRes) : PTRes :=
  let tf := Iter.takeFirst newPath key
  let key := if Iter.keyNotLonger newPath key then Iter.appendBit key newPath.length false else key
  let goLeft := !Iter.getBit key newPath.length || tf
  let viaLeft : PTRes := if goLeft then ptPush { self with st := .atLeft } (goL key) else some none
  match viaLeft with
  | none => none
  | some (some res) => some (some res)
  | some none =>
    let key := if goLeft then Iter.advanceRight key newPath.length else key
    ptPush { self with st := .after } (goR key)

/-- `doNext` on rebuilt nodes. `eh` is the empty hash (a hash-only pointer carrying it is a nil node). -/
def ptDoNext (eh : Bytes) : PT → Bits → Bytes → Iter.VState → PTRes
  | .nil, _, _, _ => some none
  | .hash h, _, _, _ => if h = eh then some none else none
  | .leaf k v, _, key, _ => some (if k < key then none else some ((k, v), []))
  | .node bits label lf l r, path, key, st =>
    let self : PTAtom := ⟨.node bits label lf l r, path, st⟩
    let newPath := path ++ (toBits label).take bits
    let goL := fun k => ptDoNext eh l newPath k .before
    let goR := fun k => ptDoNext eh r newPath k .before
    match st with
    | .before =>
      match ptViaLeaf eh self lf newPath key with
      | none => none
      | some (some res) => some (some res)
      | some none => ptFromAt self newPath key goL goR
    | .at => ptFromAt self newPath key goL goR
    | .atLeft => ptPush { self with st := .after } (goR (Iter.advanceRight key newPath.length))
    | .after => some none

/-- The loop of `Next`. -/
def ptNextLoop (eh : Bytes) (key : Bytes) : List PTAtom → PTRes
  | [] => some none
  | a :: rest =>
    match ptDoNext eh a.t a.path key a.st with
    | none => none
    | some (some (kv, pos)) => some (some (kv, pos ++ rest))
    | some none => ptNextLoop eh key rest

/-- Up to `n` further items; `none` = a hash-only pointer was hit before `n` items (or the end). -/
def ptDrain (eh : Bytes) : Nat → KV → List PTAtom → Option (List KV)
  | 0, _, _ => some []
  | n + 1, cur, pos =>
    match ptNextLoop eh cur.1 pos with
    | none => none
    | some none => some []
    | some (some (kv, pos')) => (ptDrain eh n kv pos').map (kv :: ·)

/-- `it.Seek(key)` and then `Next` while valid, for at most `n` items, answered from verified nodes
only. -/
def ptIterate (eh : Bytes) (s : PT) (key : Bytes) : Nat → Option (List KV)
  | 0 => some []
  | n + 1 =>
    match ptDoNext eh s [] key .before with
    | none => none
    | some none => some []
    | some (some (kv, pos)) => (ptDrain eh n kv pos).map (kv :: ·)

end OasisModel.Mkvs
