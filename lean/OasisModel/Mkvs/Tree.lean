import OasisModel.Mkvs.Trie
import OasisModel.Mkvs.SMap
/-
The `tree` object of go/storage/mkvs/tree.go as a state machine (C03, C13):
pending root + pending write log, with `Insert` (insert.go:12-47), `RemoveExisting`
(remove.go:11-47), `Get` (lookup.go:14-33), `Commit` (commit.go:41-127: the write log built from
the coalesced pending entries) and `ApplyWriteLog` (tree.go:100-127).
Not modelled (semantic no-ops here, seen only by the correspondence): node cache / LRU eviction,
lazy loading from the NodeDB, `pendingRemovedNodes`, clean/dirty flags.
-/
namespace OasisModel.Mkvs

/-- `pendingEntry{value, existed}` (tree.go:31); `insertedLeaf` is only a pointer to the leaf that
holds `value`. -/
structure PendingEntry where
  value : Option Bytes
  existed : Bool
  deriving Repr, DecidableEq

structure TreeState where
  root : Trie := .nil
  /-- Go: `map[string]*pendingEntry`; here an association list with unique keys. -/
  pending : List (Bytes × PendingEntry) := []
  deriving Repr

namespace TreeState

def lookupPending : List (Bytes × PendingEntry) → Bytes → Option PendingEntry
  | [], _ => none
  | (k', e) :: m, k => if k' = k then some e else lookupPending m k

/-- Set the value of an existing entry (keeps `existed`), or add a new entry. -/
def setPending : List (Bytes × PendingEntry) → Bytes → Option Bytes → Bool → List (Bytes × PendingEntry)
  | [], k, v, ex => [(k, ⟨v, ex⟩)]
  | (k', e) :: m, k, v, ex =>
    if k' = k then (k', { e with value := v }) :: m else (k', e) :: setPending m k v ex

/-- `tree.Insert`. -/
def insert (s : TreeState) (k v : Bytes) : TreeState :=
  let res := s.root.insertAux k v 0
  { root := res.1, pending := setPending s.pending k (some v) res.2 }

/-- `tree.RemoveExisting`: returns the previous value. -/
def removeExisting (s : TreeState) (k : Bytes) : TreeState × Option Bytes :=
  match lookupPending s.pending k with
  | some ⟨none, _⟩ => (s, none)            -- already removed locally
  | _ =>
    let res := s.root.removeAux k 0
    ({ root := res.1, pending := setPending s.pending k none res.2.1 }, res.2.2)

def remove (s : TreeState) (k : Bytes) : TreeState := (s.removeExisting k).1

/-- `tree.Get`: the pending write log is consulted first. -/
def get (s : TreeState) (k : Bytes) : Option Bytes :=
  match lookupPending s.pending k with
  | some e => e.value
  | none => s.root.getAux k 0

/-- The write log `Commit` returns (commit.go:103-121): entries that end removed and never
existed are dropped. In Go the order is map order; here the order of first touch. -/
def writeLog (s : TreeState) : List LogEntry :=
  (s.pending.filter (fun e => !(e.2.value.isNone && !e.2.existed))).map (fun e => (e.1, e.2.value))

/-- `tree.Commit`: root hash, write log, and the state afterwards. -/
def commit (s : TreeState) : TreeState × Bytes × List LogEntry :=
  ({ root := s.root, pending := [] }, rootHash s.root, s.writeLog)

/-- One step of `ApplyWriteLog` (tree.go:118-123). -/
def applyEntry (s : TreeState) (e : LogEntry) : TreeState :=
  match e.2 with
  | none => s.remove e.1
  | some v => s.insert e.1 v

def applyWriteLog (s : TreeState) (l : List LogEntry) : TreeState := l.foldl applyEntry s

end TreeState

/-- Write log applied to bare contents (the specification side of C13). -/
def applyLogSpec (m : List KV) (l : List LogEntry) : List KV :=
  l.foldl (fun m e => match e.2 with
    | none => SMap.erase m e.1
    | some v => SMap.insert m e.1 v) m

/-- Model of `RootCache.Apply` (storage/api/root_cache.go:25-62) + `CommitKnown` (commit.go:29-39)
for a hash function `H`: open a tree at the old root, apply the log, compute the root hash, and
persist (here: return the new tree) only if it equals the expected root; the comparison happens in
the `beforeDbCommit` hook, i.e. before `batch.Commit`, so on mismatch nothing reaches the database. -/
def applyCheckedWith (H : Bytes → Bytes) (old : Trie) (expected : Bytes) (l : List LogEntry) : Option Trie :=
  let s := TreeState.applyWriteLog { root := old } l
  if hashWith H s.root = expected then some s.root else none

/-- The same with the real hash. -/
def applyChecked (old : Trie) (expected : Bytes) (l : List LogEntry) : Option Trie :=
  applyCheckedWith Sha512_256.hash old expected l

end OasisModel.Mkvs
