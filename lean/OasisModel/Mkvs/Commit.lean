import OasisModel.Mkvs.Trie
/-
Dirty flags and incremental hashing (C02): the tree as Go holds it between commits — every pointer
carries `Clean` and a cached `Hash` (node.go:172-181) — with `doInsert`/`doRemove` marking the nodes
they touch dirty exactly where insert.go / remove.go do, and `doCommit` (commit.go:150-242)
recomputing hashes bottom-up only for dirty pointers while clean pointers keep their cached hash.
Core Lean only.  `CTrie.erase` forgets the flags; the operations are proved to commute with it and
`commitC` to return `hashWith H` of the erased tree (OasisProofs/Helpers/MkvsCommit.lean).

Go has two flags per node (`Pointer.Clean` and `Node.Clean`) that are always set together; the model
has one.  The cached hash of a dirty pointer is stale and never read.
-/
namespace OasisModel.Mkvs

/-- Embedded leaf pointer of an internal node: clean flag, cached hash, key, value. -/
abbrev CLeaf := Bool × Bytes × Bytes × Bytes

inductive CTrie where
  | nil
  | leaf (c : Bool) (h : Bytes) (k v : Bytes)
  | node (c : Bool) (h : Bytes) (lab : Bits) (lf : Option CLeaf) (l r : CTrie)
  deriving Repr, DecidableEq, Inhabited

namespace CTrie

/-- `Pointer.IsClean` (a nil pointer is clean). -/
def isClean : CTrie → Bool
  | .nil => true
  | .leaf c _ _ _ => c
  | .node c _ _ _ _ _ => c

def lfClean : Option CLeaf → Bool
  | none => true
  | some (c, _, _, _) => c

def eraseLf : Option CLeaf → Option (Bytes × Bytes)
  | none => none
  | some (_, _, k, v) => some (k, v)

/-- Forget flags and cached hashes. -/
def erase : CTrie → Trie
  | .nil => .nil
  | .leaf _ _ k v => .leaf k v
  | .node _ _ lab lf l r => .node lab (eraseLf lf) l.erase r.erase

def isNil : CTrie → Bool
  | .nil => true
  | _ => false

/-- A leaf pointer used as the embedded leaf of a node, and back. -/
def toLf : CTrie → Option CLeaf
  | .leaf c h k v => some (c, h, k, v)
  | _ => none

def ofLf : CLeaf → CTrie
  | (c, h, k, v) => .leaf c h k v

/-- `newLeafNode`: a fresh pointer is dirty. -/
def newLeaf (k v : Bytes) : CTrie := .leaf false [] k v

/-- Flag of an internal node after one of its pointers was replaced (insert.go:121-131): dirty as
soon as any of the three pointers is not clean. -/
def nodeFlag (c : Bool) (lf : Option CLeaf) (l r : CTrie) : Bool :=
  if lfClean lf && l.isClean && r.isClean then c else false

/-- `doInsert` on the embedded-leaf pointer of a node whose path is the key. -/
def insertLf (k v : Bytes) : Option CLeaf → CLeaf × Bool
  | none => ((false, [], k, v), false)
  | some (c, h, k', v') =>
    if k' = k then
      if v' = v then ((c, h, k', v'), true) else ((false, h, k, v), true)
    else ((false, [], k, v), false)   -- not reachable in a canonical tree (see `Trie.insertAux`)

/-- `doInsert` (insert.go:59) with dirty marking. -/
def insertC (k v : Bytes) : CTrie → Nat → CTrie × Bool
  | .nil, _ => (newLeaf k v, false)
  | .leaf c h k' v', d =>
    if k' = k then
      if v' = v then (.leaf c h k' v', true) else (.leaf false h k v, true)
    else
      let kb := (toBits k).drop d
      let lb := (toBits k').drop d
      let cp := lcp lb kb
      let pre := lb.take cp
      let old := CTrie.leaf c h k' v'
      let t :=
        match kb.drop cp, lb.drop cp with
        | [], true :: _ => .node false [] pre (some (false, [], k, v)) .nil old
        | [], _ => .node false [] pre (some (false, [], k, v)) old .nil
        | true :: _, [] => .node false [] pre (some (c, h, k', v')) .nil (newLeaf k v)
        | false :: _, [] => .node false [] pre (some (c, h, k', v')) (newLeaf k v) .nil
        | true :: _, _ :: _ => .node false [] pre none old (newLeaf k v)
        | false :: _, _ :: _ => .node false [] pre none (newLeaf k v) old
      (t, false)
  | .node c h lab lf l r, d =>
    let kb := (toBits k).drop d
    let cp := lcp lab kb
    if cp = lab.length then
      let bl := d + lab.length
      match (toBits k).drop bl with
      | [] =>
        let res := insertLf k v lf
        (.node (nodeFlag c (some res.1) l r) h lab (some res.1) l r, res.2)
      | true :: _ =>
        let res := insertC k v r bl
        (.node (nodeFlag c lf l res.1) h lab lf l res.1, res.2)
      | false :: _ =>
        let res := insertC k v l bl
        (.node (nodeFlag c lf res.1 r) h lab lf res.1 r, res.2)
    else
      let pre := lab.take cp
      let suf := lab.drop cp
      let old := CTrie.node false h suf lf l r      -- label changed: dirty (insert.go:143-151)
      let t :=
        match kb.drop cp with
        | [] =>
          match suf with
          | true :: _ => .node false [] pre (some (false, [], k, v)) .nil old
          | _ => .node false [] pre (some (false, [], k, v)) old .nil
        | true :: _ => .node false [] pre none old (newLeaf k v)
        | false :: _ => .node false [] pre none (newLeaf k v) old
      (t, false)

/-- Label merge into a single remaining child (remove.go:131-147): the child becomes dirty. -/
def prependC (lab : Bits) : CTrie → CTrie
  | .node _ h lab2 lf l r => .node false h (lab ++ lab2) lf l r
  | t => t

/-- Collapse step of `doRemove` (remove.go:107-165) with the marking of remove.go:153-163. -/
def collapseC (c : Bool) (h : Bytes) (lab : Bits) (lf : Option CLeaf) (l r : CTrie) (changed : Bool) :
    CTrie × Bool :=
  match lf, l, r with
  | some p, .nil, .nil => (ofLf p, true)
  | none, l, .nil => (prependC lab l, true)
  | none, .nil, r => (prependC lab r, true)
  | lf, l, r => (.node (if changed then false else c) h lab lf l r, changed)

/-- `doRemove` (remove.go:55) with dirty marking. -/
def removeC (k : Bytes) : CTrie → Nat → CTrie × Bool × Option Bytes
  | .nil, _ => (.nil, false, none)
  | .leaf c h k' v', _ => if k' = k then (.nil, true, some v') else (.leaf c h k' v', false, none)
  | .node c h lab lf l r, d =>
    let bl := d + lab.length
    let n := (toBits k).length
    if n < bl then (.node c h lab lf l r, false, none)
    else if n = bl then
      match lf with
      | some (c0, h0, k', v') =>
        if k' = k then
          let res := collapseC c h lab none l r true
          (res.1, res.2, some v')
        else
          let res := collapseC c h lab (some (c0, h0, k', v')) l r false
          (res.1, res.2, none)
      | none =>
        let res := collapseC c h lab none l r false
        (res.1, res.2, none)
    else match (toBits k).drop bl with
      | true :: _ =>
        let res := removeC k r bl
        let cl := collapseC c h lab lf l res.1 res.2.1
        (cl.1, cl.2, res.2.2)
      | _ =>
        let res := removeC k l bl
        let cl := collapseC c h lab lf res.1 r res.2.1
        (cl.1, cl.2, res.2.2)

def commitLf (H : Bytes → Bytes) : Option CLeaf → Option CLeaf × Bytes
  | none => (none, H [])
  | some (c, h, k, v) =>
    if c then (some (c, h, k, v), h) else (some (true, H (leafEnc k v), k, v), H (leafEnc k v))

/-- `doCommit` (commit.go:150): a clean pointer answers its cached hash without descending; a
dirty one commits its leaf and children, recomputes its hash from their hashes and becomes clean. -/
def commitC (H : Bytes → Bytes) : CTrie → CTrie × Bytes
  | .nil => (.nil, H [])
  | .leaf c h k v => if c then (.leaf c h k v, h) else (.leaf true (H (leafEnc k v)) k v, H (leafEnc k v))
  | .node c h lab lf l r =>
    if c then (.node c h lab lf l r, h)
    else
      let rlf := commitLf H lf
      let rl := commitC H l
      let rr := commitC H r
      let hh := H (nodeEnc lab rlf.2 rl.2 rr.2)
      (.node true hh lab rlf.1 rl.1 rr.1, hh)

end CTrie
end OasisModel.Mkvs
