import OasisModel.Proto
/- C04/C12 proofs and checkpoints: driver stub (not built yet). -/
namespace OasisModel.Mkvs.ProofDriver
def main : IO Unit := IO.eprintln "mode not implemented"
end OasisModel.Mkvs.ProofDriver
