import OasisModel.Proto
import OasisModel.Mkvs.Proof
import OasisModel.Mkvs.Chunk
import OasisModel.Mkvs.ProofIter
/-
Driver for C04/C12 (mode `proof`, executable `om_proof`), used by harness/cmd/proofdrv.
One operation per line; the model prints its own answer and the harness compares it with what the
real code did (everything here is deterministic, so no witness form is needed).

Encoding: bytes in hex, `-` = empty byte string; entry lists `e,e,...` with `~` = nil entry,
`.` = empty list; write logs / contents `k:v,k:v` or `.`.

  new                              fresh empty tree
  insert K V | remove K            update the model tree
  root                             -> `root HASH`                      (real SHA-512/256)
  tget K                           -> `val V` | `absent`               (full tree's answer)
  verify V ROOT UNTRUSTED ENTRIES  -> `ok WRITELOG` | `err CLASS`      (ProofVerifier.VerifyProofToWriteLog)
  sub                              -> `ok` | `NOTSUB`                  (last accepted tree ⊑ model tree)
  get K                            -> `val V` | `absent` | `unresolved` (lookup on the last accepted tree)
  iter K N                         -> `items K:V,...` | `unresolved`    (Seek K + Next, at most N items, on the last accepted tree)
  proofget V SIB K                 -> `proof UNTRUSTED ENTRIES`        (SyncGet positioned at the root)
  proofiter V PREFETCH K           -> `proof UNTRUSTED ENTRIES`        (SyncIterate)
  proofprefixes V LIMIT P1,P2,...  -> `proof UNTRUSTED ENTRIES`        (SyncGetPrefixes)
  buildincl V HASHES               -> `proof UNTRUSTED ENTRIES`        (ProofBuilder.Build for an arbitrary included set)
  depth                            -> `depth N`                        (deepest pointer of the tree)
  chunks SIZE                      -> `chunks N ENTRIES|ENTRIES|...`   (sequential chunker, V0 proofs)
  pchunks SIZE THREADS             -> `chunks N ENTRIES|...`           (parallel chunker)
  cover                            -> `cover ok` | `cover MISSING`     (every node of the tree is in some chunk of the last list)
  restore ORDER                    -> `restored COUNT ROOTOK`          (restorer model over the last chunk list)
-/
namespace OasisModel.Mkvs.ProofDriver
open OasisModel.Proto OasisModel.Mkvs

def sha := Sha512_256.hash

structure St where
  trie : Trie := .nil
  ht : Option HTrie := none          -- cached annotation of `trie`
  last : Option PT := none
  chunks : List (List (Option Bytes)) := []

def showEntries (es : List (Option Bytes)) : String :=
  if es.isEmpty then "." else
  ",".intercalate (es.map fun e => match e with
    | none => "~"
    | some b => showHex b)

def parseEntries (s : String) : Option (List (Option Bytes)) :=
  if s == "." then some [] else
  (s.splitOn ",").mapM fun e => if e == "~" then some none else (parseHex e).map some

def showKVs (l : List (Bytes × Bytes)) : String :=
  if l.isEmpty then "." else ",".intercalate (l.map fun kv => showHex kv.1 ++ ":" ++ showHex kv.2)

def St.htrie (st : St) : St × HTrie :=
  match st.ht with
  | some h => (st, h)
  | none =>
    let h := annotate sha st.trie
    ({ st with ht := some h }, h)

def showAns : Option (Option Bytes) → String
  | none => "unresolved"
  | some none => "absent"
  | some (some v) => "val " ++ showHex v

def step (st : St) (line : String) : St × String :=
  match words line with
  | ["new"] => ({}, "ok")
  | ["insert", k, v] =>
    match parseHex k, parseHex v with
    | some k, some v => ({ st with trie := st.trie.insert k v, ht := none }, "ok")
    | _, _ => (st, "ERR parse")
  | ["remove", k] =>
    match parseHex k with
    | some k => ({ st with trie := st.trie.remove k, ht := none }, "ok")
    | _ => (st, "ERR parse")
  | ["root"] =>
    let (st, h) := st.htrie
    (st, "root " ++ showHex (h.hash (sha [])))
  | ["tget", k] =>
    match parseHex k with
    | some k => (st, showAns (some (st.trie.get k)))
    | _ => (st, "ERR parse")
  | ["depth"] =>
    let (st, h) := st.htrie
    (st, "depth " ++ toString h.ptrDepth)
  | ["verify", v, root, untrusted, es] =>
    match v.toNat?, parseHex root, parseHex untrusted, parseEntries es with
    | some v, some root, some untrusted, some es =>
      match verifyProof sha root { v := v, untrusted := untrusted, entries := es } with
      | .ok t => ({ st with last := some t }, "ok " ++ showKVs t.writeLog)
      | .error e => ({ st with last := none }, "err " ++ e.toString)
    | _, _, _, _ => (st, "ERR parse")
  | ["sub"] =>
    match st.last with
    | some t => (st, if subB sha t st.trie then "ok" else "NOTSUB")
    | none => (st, "ERR no accepted proof")
  | ["get", k] =>
    match parseHex k, st.last with
    | some k, some t => (st, showAns (t.getAux (sha []) k 0))
    | _, _ => (st, "ERR parse")
  | ["iter", k, n] =>
    match parseHex k, n.toNat?, st.last with
    | some k, some n, some t =>
      match ptIterate (sha []) t k n with
      | some items => (st, "items " ++ showKVs items)
      | none => (st, "unresolved")
    | _, _, _ => (st, "ERR parse")
  | ["proofget", v, sib, k] =>
    match v.toNat?, sib.toNat?, parseHex k with
    | some v, some sib, some k =>
      let (st, h) := st.htrie
      let p := proofGet (sha []) v (sib != 0) k h
      (st, "proof " ++ showHex p.untrusted ++ " " ++ showEntries p.entries)
    | _, _, _ => (st, "ERR parse")
  | ["proofiter", v, pre, k] =>
    match v.toNat?, pre.toNat?, parseHex k with
    | some v, some pre, some k =>
      let (st, h) := st.htrie
      let p := proofIterate (sha []) v k pre h
      (st, "proof " ++ showHex p.untrusted ++ " " ++ showEntries p.entries)
    | _, _, _ => (st, "ERR parse")
  | ["proofprefixes", v, limit, ps] =>
    match v.toNat?, limit.toNat?, (ps.splitOn ",").mapM parseHex with
    | some v, some limit, some ps =>
      let (st, h) := st.htrie
      let p := proofPrefixes (sha []) v ps limit h
      (st, "proof " ++ showHex p.untrusted ++ " " ++ showEntries p.entries)
    | _, _, _ => (st, "ERR parse")
  | ["buildincl", v, hs] =>
    match v.toNat?, (if hs == "." then some [] else (hs.splitOn ",").mapM parseHex) with
    | some v, some hs =>
      let (st, h) := st.htrie
      let p := build (sha []) v hs h
      (st, "proof " ++ showHex p.untrusted ++ " " ++ showEntries p.entries)
    | _, _ => (st, "ERR parse")
  | ["chunks", size] =>
    match size.toNat? with
    | some size =>
      let (st, h) := st.htrie
      let cs := seqChunks (sha []) size h
      ({ st with chunks := cs },
        "chunks " ++ toString cs.length ++ " " ++ "|".intercalate (cs.map showEntries))
    | none => (st, "ERR parse")
  | ["pchunks", size, threads] =>
    match size.toNat?, threads.toNat? with
    | some size, some threads =>
      let (st, h) := st.htrie
      let cs := parChunks (sha []) size threads h
      ({ st with chunks := cs },
        "chunks " ++ toString cs.length ++ " " ++ "|".intercalate (cs.map showEntries))
    | _, _ => (st, "ERR parse")
  | ["cover"] =>
    let (st, h) := st.htrie
    (st, if coverB sha (h.hash (sha [])) st.trie st.chunks then "cover ok" else "cover MISSING")
  | ["restore", order] =>
    match parseNats order with
    | some order =>
      let (st, h) := st.htrie
      let root := h.hash (sha [])
      let r := restoreRun sha root st.chunks order
      (st, "restored " ++ toString r.1 ++ " " ++ (if r.2 then "complete" else "incomplete"))
    | none => (st, "ERR parse")
  | _ => (st, "ERR unknown op")

def main : IO Unit := loop step {}

end OasisModel.Mkvs.ProofDriver
