import OasisModel.Mkvs.Proof
/-
C04 — requests positioned below the root (core Lean only).

`OasisModel/Mkvs/Proof.lean` models `ProofBuilder.Build` for `subtree = root` only (`build`,
`proofGet`).  This file adds the requested position `request.Tree.Position`:

  * `HTrie.findHash`     the node the builder's `included` map holds under a hash: syncer/proof.go:66
                         `included map[hash.Hash]*proofNode`, filled by `Include` (proof.go:110-177)
                         with the serialisation and the child hashes of the node.  Like `buildFrom`
                         (which emits from the tree and consults the included set by hash) the model
                         identifies a hash with the first pointer of the tree, in pre-order (node, own
                         leaf, left, right), that carries it.
  * `buildAt`            syncer/proof.go:179-220 `HasSubtreeRoot` / `GetSubtreeRoot` / `Build`:
                         `included[b.subtree] != nil` ⇒ `UntrustedRoot = b.subtree` and the pre-order
                         emission starts at that node; otherwise `UntrustedRoot = b.root` and the
                         emission starts at the tree root.
  * `proofGetAt`         lookup.go:37-73 `SyncGet`: `NewProofBuilderForVersion(request.Tree.Root.Hash,
                         request.Tree.Position, request.ProofVersion)`, then `doGet` from
                         `t.cache.pendingRoot` at bit depth 0 — the lookup ALWAYS starts at the tree
                         root, the position only selects where `Build` anchors the proof.
  * `clientAccept`       cache.go:385-415 `remoteSync` up to and including `VerifyProof`: the response
                         must be a proof for `ptr.Hash` (the position the client asked for,
                         lookup.go:80 `Position: ptr.Hash`) or for the sync root; it is verified against
                         that hash.  `clientSync` of Proof.lean merges exactly what `clientAccept`
                         returns (`clientSync_eq_accept` in the proofs).
  * `pathNodes`          the nodes `doGet` passes to `Include` while it walks towards `k` with
                         `stop = false` (lookup.go:111-119, 155, 165), each with its `bitDepth`.
  * `PT.stuckAt`         where the lookup of a client that holds only verified nodes stops: the hash
                         and bit depth of the hash-only pointer `doGet` has to dereference next
                         (`derefNodePtr` → `remoteSync(ptr)`, cache.go:376).
  * `inclGetBelow`       a SEEDED MUTATION of `doGet` (not the code that exists): `Include` is called
                         only once the node whose hash is the requested position has been reached.
-/
namespace OasisModel.Mkvs

deriving instance DecidableEq for HTrie

namespace HTrie

/-- The own-leaf pointer of an internal node, if it carries hash `p`. -/
def findLeafSlot (p : Bytes) (lf : Option (Bytes × Bytes)) (hlf : Bytes) : Option HTrie :=
  match lf with
  | none => none
  | some (k, v) => if hlf = p then some (.leaf hlf k v) else none

/-- First pointer of the tree in pre-order (node, own leaf, left, right) with hash `p`. -/
def findHash (p : Bytes) : HTrie → Option HTrie
  | .nil => none
  | .leaf h k v => if h = p then some (.leaf h k v) else none
  | .node h lab lf hlf l r =>
    if h = p then some (.node h lab lf hlf l r) else
    match findLeafSlot p lf hlf with
    | some s => some s
    | none =>
      match findHash p l with
      | some s => some s
      | none => findHash p r

/-- The nodes a lookup of `k` passes to `Include` on its way down (`stop = false`), with the bit
depth at which `doGet` visits them. The own leaf of the node where the key ends is visited with the
builder only in version 1 (lookup.go:149-155). -/
def pathNodes (ver : Nat) (k : Bytes) : HTrie → Nat → List (HTrie × Nat)
  | .nil, _ => []
  | .leaf h k' v', d => [(.leaf h k' v', d)]
  | .node h lab lf hlf l r, d =>
    let bl := d + lab.length
    let n := (toBits k).length
    (.node h lab lf hlf l r, d) ::
      (if n = bl then
        (if ver = 0 then [] else
          match lf with
          | none => []
          | some (k', v') => [(.leaf hlf k' v', bl)])
      else if n < bl then []
      else match (toBits k).drop bl with
        | true :: _ => pathNodes ver k r bl
        | _ => pathNodes ver k l bl)

end HTrie

/-- `ProofBuilder.Build` (syncer/proof.go:202-220) of a builder created with
`NewProofBuilderForVersion(root, p, ver)` whose included set is `incl`, over the tree `t`.
`incl.contains p` is `HasSubtreeRoot`. The last branch (a hash in the included set that no pointer of
the tree carries) is unreachable for a builder that was filled from `t`
(`inclGet_findHash` in the proofs); it is given the hash entry `build` would emit for an unknown hash. -/
def buildAt (eh : Bytes) (ver : Nat) (incl : List Bytes) (p : Bytes) (t : HTrie) : MProof :=
  if incl.contains p then
    match t.findHash p with
    | some s => { v := ver, untrusted := p, entries := buildFrom ver incl s }
    | none => { v := ver, untrusted := p, entries := [some (0x02 :: p)] }
  else build eh ver incl t

/-- The proof `SyncGet` answers with for key `k` and requested position `p` (lookup.go:37-73). -/
def proofGetAt (eh : Bytes) (ver : Nat) (sib : Bool) (k : Bytes) (p : Bytes) (t : HTrie) : MProof :=
  buildAt eh ver (inclGet ver sib k t 0 false {}).incl p t

/-- cache.go:385-415: which hash the client verifies the response against, and the verified subtree
it goes on to merge. `none`: "got proof for unexpected root" or a verification error. -/
def clientAccept (H : Bytes → Bytes) (root ptrHash : Bytes) (resp : MProof) : Option PT :=
  if resp.untrusted = ptrHash then
    match verifyProof H ptrHash resp with
    | .ok sub => some sub
    | .error _ => none
  else if resp.untrusted = root then
    match verifyProof H root resp with
    | .ok sub => some sub
    | .error _ => none
  else none

namespace PT

/-- `doGet` (lookup.go:98) on verified nodes only: the hash-only pointer it has to dereference next
(`ptr.Hash`, which the fetcher sends as `Position`, lookup.go:80) and the bit depth there. `none`:
the lookup is answered locally. -/
def stuckAt (eh : Bytes) (k : Bytes) : PT → Nat → Option (Bytes × Nat)
  | .nil, _ => none
  | .hash h, d => if h = eh then none else some (h, d)
  | .leaf _ _, _ => none
  | .node bits _ lf l r, d =>
    let bl := d + bits
    let n := (toBits k).length
    if n = bl then stuckAt eh k lf bl
    else if n < bl then none
    else match (toBits k).drop bl with
      | true :: _ => stuckAt eh k r bl
      | _ => stuckAt eh k l bl

/-- The client holds no internal node whose own-leaf pointer is hash-only. This is what the nodes of
version 0 proofs look like (the leaf is embedded in the internal node, `ofLeafOpt`; the remote client
requests version 0, lookup.go:12 `syncProofsVersion`), and `derefNodePtr` re-fetches the whole node
when the leaf was evicted (cache.go:341-351). -/
def LeafFull : PT → Prop
  | .node _ _ lf l r => (∀ h, lf ≠ .hash h) ∧ LeafFull l ∧ LeafFull r
  | _ => True

end PT

/-! ### seeded mutation: include only below the requested position -/

/-- `Include` guarded by "the position has been reached". -/
def Builder.includeIf (b : Builder) (act : Bool) (h : Bytes) (n : Nat) : Builder :=
  if act then b.include h n else b

/-- The guarded visit of the own-leaf pointer of an internal node (`doGet(n.LeafNode, …)`). -/
def Builder.includeLeafSlotIf (b : Builder) (act : Bool) (p : Bytes) (lf : Option (Bytes × Bytes))
    (hlf : Bytes) : Builder :=
  match lf with
  | none => b
  | some (k, v) => b.includeIf (act || hlf == p) hlf (encLeaf k v).length

/-- MUTATED `doGet` (not the code that exists): a node is passed to `Include` only once the node
whose hash is the requested position `p` has been reached on the way down (`act`; a node reached
with `stop = true` counts for itself). The recursion is `doGet`'s (lookup.go:98-204), including the
sibling fetches with `stop = true`. With `act = true` from the start this is `inclGet`. -/
def inclGetBelow (ver : Nat) (sib : Bool) (p : Bytes) (k : Bytes) :
    HTrie → Nat → Bool → Bool → Builder → Builder
  | .nil, _, _, _, b => b
  | .leaf h k' v', _, _, act, b => b.includeIf (act || h == p) h (encLeaf k' v').length
  | .node h lab lf hlf l r, d, stop, act, b =>
    let act := act || h == p
    let b := b.includeIf act h (encInternal ver lab lf).length
    if stop then b else
    let bl := d + lab.length
    let n := (toBits k).length
    if n = bl then
      let b := if sib then
          inclGetBelow ver sib p k r bl true act (inclGetBelow ver sib p k l bl true act b)
        else b
      if ver = 0 then b else b.includeLeafSlotIf act p lf hlf
    else if n < bl then b
    else match (toBits k).drop bl with
      | true :: _ =>
        let b := inclGetBelow ver sib p k r bl false act b
        if sib then
          let b := if ver > 0 then b.includeLeafSlotIf act p lf hlf else b
          inclGetBelow ver sib p k l bl true act b
        else b
      | _ =>
        let b := inclGetBelow ver sib p k l bl false act b
        if sib then
          let b := if ver > 0 then b.includeLeafSlotIf act p lf hlf else b
          inclGetBelow ver sib p k r bl true act b
        else b

/-- The response of the mutated `SyncGet`. -/
def proofGetBelow (eh : Bytes) (ver : Nat) (sib : Bool) (k : Bytes) (p : Bytes) (t : HTrie) : MProof :=
  buildAt eh ver (inclGetBelow ver sib p k t 0 false false {}).incl p t

end OasisModel.Mkvs
