import OasisModel.Mkvs.Tree
import OasisModel.Mkvs.Iter
/-
Overlay trees (go/storage/mkvs/overlay.go) and stacks of overlays (C03).

A `Layer` is the state of one `treeOverlay`: the sorted `overlay` map (Go: btree.Map) and the
`dirty` key set.  Its operations are written exactly as overlay.go does, parameterised by what the
*inner* tree answers (`innerGet`, the inner iterator's item list), so that the refinement theorem
can be stated for an arbitrary inner key-value tree.  `Stack` iterates the construction over a base
`TreeState` (the consensus layer stacks up to three: context.go:245-280).
-/
namespace OasisModel.Mkvs

structure Layer where
  overlay : List KV := []
  dirty : List Bytes := []
  deriving Repr

namespace Layer

def isDirty (L : Layer) (k : Bytes) : Bool := L.dirty.contains k

def markDirty (L : Layer) (k : Bytes) : List Bytes := if L.dirty.contains k then L.dirty else k :: L.dirty

/-- overlay.go:37 `Insert`. -/
def insert (L : Layer) (k v : Bytes) : Layer :=
  { overlay := SMap.insert L.overlay k v, dirty := L.markDirty k }

/-- overlay.go:44 `Get`. -/
def get (L : Layer) (innerGet : Bytes → Option Bytes) (k : Bytes) : Option Bytes :=
  if L.isDirty k then SMap.get L.overlay k else innerGet k

/-- overlay.go:56 `RemoveExisting`: a key that is not dirty and absent below stays not dirty. -/
def removeExisting (L : Layer) (innerGet : Bytes → Option Bytes) (k : Bytes) : Layer × Option Bytes :=
  if L.isDirty k then
    ({ L with overlay := SMap.erase L.overlay k }, SMap.get L.overlay k)
  else
    match innerGet k with
    | some v => ({ L with dirty := k :: L.dirty }, some v)
    | none => (L, none)

/-- overlay.go:77 `Remove`. -/
def remove (L : Layer) (k : Bytes) : Layer :=
  { overlay := SMap.erase L.overlay k, dirty := L.markDirty k }

/-- overlay.go:96 `Copy(inner)`: a new overlay with a copy of the dirty set and of the overlay map
(the inner tree is the given one, or the same one for `nil`). Later writes to either overlay do not
reach the other; both read through to their inner tree. -/
def copy (L : Layer) : Layer := { overlay := L.overlay, dirty := L.dirty }

/-- The merge iterator (overlay.go:150-225) as the list of items successive `Next` calls yield.
`is` = remaining items of the inner iterator, `os` = remaining items of the overlay iterator.
`updateIteratorPosition` first skips dirty inner items; the current item is the inner one iff it
is strictly smaller; `Next` advances the inner iterator iff its key is ≤ the overlay key. -/
def mergeIter (dirty : List Bytes) : Nat → List KV → List KV → List KV
  | 0, _, _ => []
  | fuel + 1, is, os =>
    match is.dropWhile (fun kv => dirty.contains kv.1), os with
    | [], [] => []
    | i :: is', [] => i :: mergeIter dirty fuel is' []
    | [], o :: os' => o :: mergeIter dirty fuel [] os'
    | i :: is', o :: os' =>
      if i.1 < o.1 then i :: mergeIter dirty fuel is' (o :: os')
      else if i.1 = o.1 then o :: mergeIter dirty fuel is' (o :: os')  -- not reachable: overlay keys are dirty
      else o :: mergeIter dirty fuel (i :: is') os'

/-- Items an overlay iterator yields after `Seek k`, given the inner iterator's items after `Seek k`. -/
def iter (L : Layer) (innerItems : List KV) (k : Bytes) : List KV :=
  let os := SMap.seekGE L.overlay k
  mergeIter L.dirty (innerItems.length + os.length + 1) innerItems os

/-- The calls `Commit` (overlay.go:116) issues on the inner tree: `Insert` for every overlay item
in key order, then `Remove` for every dirty key that has no overlay item (Go: map order). -/
def commitOps (L : Layer) : List LogEntry :=
  L.overlay.map (fun kv => (kv.1, some kv.2)) ++
  ((L.dirty.filter (fun k => (SMap.get L.overlay k).isNone)).map (fun k => (k, none)))

end Layer

/-! ### a stack of overlays over a tree; the head of the list is the outermost overlay -/

namespace Stack

def get (b : TreeState) : List Layer → Bytes → Option Bytes
  | [], k => b.get k
  | L :: rest, k => L.get (get b rest) k

/-- Items of an iterator on the handle after `Seek k`. The base tree iterator is taken at
specification level here (all live keys ≥ k ascending); its visit-state machine is `Iter.lean`. -/
def iter (b : TreeState) : List Layer → Bytes → List KV
  | [], k => SMap.seekGE b.root.toList k
  | L :: rest, k => L.iter (iter b rest k) k

/-- The same with the tree iterator as the code writes it (`Iter.iterate`: the visit-state machine
of iterator.go) at the bottom of the stack. Equal to `iter` (`OasisProofs.C03.stack_iterMachine_eq`). -/
def iterMachine (b : TreeState) : List Layer → Bytes → List KV
  | [], k => Iter.iterate b.root k
  | L :: rest, k => L.iter (iterMachine b rest k) k

def insert (b : TreeState) : List Layer → Bytes → Bytes → TreeState × List Layer
  | [], k, v => (b.insert k v, [])
  | L :: rest, k, v => (b, L.insert k v :: rest)

def remove (b : TreeState) : List Layer → Bytes → TreeState × List Layer
  | [], k => (b.remove k, [])
  | L :: rest, k => (b, L.remove k :: rest)

def removeExisting (b : TreeState) : List Layer → Bytes → (TreeState × List Layer) × Option Bytes
  | [], k => let r := b.removeExisting k; ((r.1, []), r.2)
  | L :: rest, k => let r := L.removeExisting (get b rest) k; ((b, r.1 :: rest), r.2)

def applyOps (b : TreeState) (ls : List Layer) (ops : List LogEntry) : TreeState × List Layer :=
  ops.foldl (fun s e => match e.2 with
    | some v => insert s.1 s.2 e.1 v
    | none => remove s.1 s.2 e.1) (b, ls)

/-- `Commit` of the outermost overlay: its writes go to the handle below; the overlay is gone. -/
def commitTop (b : TreeState) : List Layer → TreeState × List Layer
  | [] => (b, [])
  | L :: rest => applyOps b rest L.commitOps

end Stack

end OasisModel.Mkvs
