import OasisModel.Mkvs.Iter
/-
Byte-level key operations of go/storage/mkvs/node/key.go transcribed on `List UInt8` (C02/C03):
`GetBit`, `AppendBit`, `Split`, `Merge`, `CommonPrefixLen` with the shifts and masks the Go code
uses.  They are proved equal to the bit-list operations the trie and iterator models use
(OasisProofs/Helpers/MkvsKey.lean) and compared with the real `node.Key` methods by mkvsdrv.
Core Lean only.  Lengths are in bits (`Depth`), `toBytesLen` is `Depth.ToBytes`.
-/
namespace OasisModel.Mkvs.Key
open OasisModel.Mkvs
open OasisModel.Mkvs.Iter (toBytesLen)

def byteAt (k : Bytes) (i : Nat) : UInt8 := k.getD i 0

/-- `k[bit/8] & (1 << (7 - bit%8)) != 0` (key.go:89). -/
def getBit (k : Bytes) (bit : Nat) : Bool :=
  (byteAt k (bit / 8) &&& ((1 : UInt8) <<< UInt8.ofNat (7 - bit % 8))) != 0

/-- `make(Key, n)` then `copy(dst, src)`: the first `n` bytes of `src`, zero filled. -/
def copyInto (n : Nat) (src : Bytes) : Bytes := (src ++ List.replicate n 0).take n

/-- `AppendBit` (key.go:161). -/
def appendBit (k : Bytes) (keyLen : Nat) (val : Bool) : Bytes :=
  let newKey := copyInto (toBytesLen (keyLen + 1)) k
  let mask : UInt8 := (0x80 : UInt8) >>> UInt8.ofNat (keyLen % 8)
  let b := byteAt newKey (keyLen / 8)
  newKey.set (keyLen / 8) (if val then b ||| mask else b &&& ~~~ mask)

/-- `Split` (key.go:110): prefix of `splitPoint` bits (rest of the last byte cleared) and the
remaining `keyLen - splitPoint` bits shifted to the front. -/
def split (k : Bytes) (splitPoint keyLen : Nat) : Bytes × Bytes :=
  let prefixLen := toBytesLen splitPoint
  let suffixLen := toBytesLen (keyLen - splitPoint)
  let pre0 := copyInto prefixLen k
  let pre :=
    if splitPoint % 8 != 0 then
      pre0.set (prefixLen - 1) (byteAt pre0 (prefixLen - 1) &&& ((0xff : UInt8) <<< UInt8.ofNat (8 - splitPoint % 8)))
    else pre0
  let suf := (List.range suffixLen).map fun i =>
    let a := byteAt k (i + splitPoint / 8) <<< UInt8.ofNat (splitPoint % 8)
    if splitPoint % 8 != 0 && i + splitPoint / 8 + 1 != k.length then
      a ||| (byteAt k (i + splitPoint / 8 + 1) >>> UInt8.ofNat (8 - splitPoint % 8))
    else a
  (pre, suf)

/-- `Merge` (key.go:138): `k` (of `keyLen` bits) followed by `k2` (of `k2Len` bits). -/
def merge (k : Bytes) (keyLen : Nat) (k2 : Bytes) (k2Len : Nat) : Bytes :=
  let keyLenBytes := toBytesLen keyLen
  let n := toBytesLen (keyLen + k2Len)
  let new0 := copyInto n (k.take keyLenBytes)
  (List.range k2.length).foldl (fun newKey i =>
    let nk1 :=
      if keyLen % 8 != 0 && keyLenBytes > 0 then
        newKey.set (keyLenBytes + i - 1)
          (byteAt newKey (keyLenBytes + i - 1) ||| (byteAt k2 i >>> UInt8.ofNat (keyLen % 8)))
      else newKey
    if keyLenBytes + i < n then
      nk1.set (keyLenBytes + i)
        (byteAt nk1 (keyLenBytes + i) ||| (byteAt k2 i <<< UInt8.ofNat ((8 - keyLen % 8) % 8)))
    else nk1) new0

/-- `bits.LeadingZeros8`. -/
def leadingZeros8 (b : UInt8) : Nat :=
  ((List.range 8).map (fun i => b.toNat.testBit (7 - i))).takeWhile (· == false) |>.length

/-- `CommonPrefixLen` (key.go:180). -/
def commonPrefixLen (k : Bytes) (keyBitLen : Nat) (k2 : Bytes) (k2BitLen : Nat) : Nat :=
  let minLen := min k2.length k.length
  let i := ((List.range minLen).takeWhile (fun j => byteAt k j == byteAt k2 j)).length
  let bitLength := i * 8
  let bitLength :=
    if i != k.length && i != k2.length then bitLength + leadingZeros8 (byteAt k i ^^^ byteAt k2 i)
    else bitLength
  min (min bitLength keyBitLen) k2BitLen

end OasisModel.Mkvs.Key
