import OasisModel.Mkvs.Proof
/- C12 — checkpoint chunking and restoring (stub, filled in below). -/
namespace OasisModel.Mkvs

def seqChunks (_eh : Bytes) (_size : Nat) (_t : HTrie) : List (List (Option Bytes)) := []
def parChunks (_eh : Bytes) (_size _threads : Nat) (_t : HTrie) : List (List (Option Bytes)) := []
def restoreRun (_H : Bytes → Bytes) (_root : Bytes) (_chunks : List (List (Option Bytes))) (_order : List Nat) :
    Nat × Bool := (0, false)

end OasisModel.Mkvs
