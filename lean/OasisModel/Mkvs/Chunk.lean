import OasisModel.Mkvs.Proof
/-
C12 — checkpoint chunking and restoring (core Lean only).

Mirrors go/storage/mkvs:
  * `doNext` / `itSeek` / `itNext`     iterator.go:180-371 (`Seek`, `Next`, `doNext` with a proof builder:
        every dereferenced node is included; byte-level key surgery `AppendBit`/`Split`/`Merge`/`GetBit`
        and `Compare` of node/key.go expressed through `toBits`/`packBits`)
  * `seqChunk` / `seqChunks`            checkpoint/chunk.go:52-143 (sequential chunker: iterate with a V0
        proof builder until `Size() >= chunkSize`; next offset = following key)
  * `Subtree`, `visitNext`, `nextChunk`, `trim`, `split`   checkpoint/subtree.go
  * `splitTasks`, `parRounds`, `parChunks`                 checkpoint/chunk.go:145-247 (parallel chunker:
        deterministic left-to-right splitting, one chunk per task per round, finished tasks filtered)
  * `restoreChunkM`                     chunk.go:249-341 `restoreChunk` (digest, decode, verify, import)
  * `Restorer`, `rsStart/rsAbort/rsRestoreChunk`           checkpoint/restorer.go (pending-set machine)
Not in the model (seen only by the correspondence): snappy/CBOR framing of chunk files and the
digest over the compressed stream (the harness supplies "digest matched" as a bit), errgroup
scheduling of `createChunks` (the model runs the tasks of a round in order: they share nothing),
the NodeDB multipart batch (the database is modelled as the set of imported node hashes).
-/
namespace OasisModel.Mkvs

/-! ### the iterator with a proof builder -/

inductive VState
  | before | at | atLeft | after
  deriving Repr, DecidableEq, Inhabited

/-- `pathAtom` (iterator.go:122): where to resume below which node. -/
structure Atom where
  t : HTrie
  d : Nat
  path : Bits
  st : VState
  deriving Repr, Inhabited

/-- `Key.AppendBit(keyLen, val)`: `(keyLen+1).ToBytes()` bytes, the old bytes copied, bit `keyLen` set. -/
def keyAppendBit (k : Bytes) (keyLen : Nat) (val : Bool) : Bytes :=
  let n := toBytesLen (keyLen + 1)
  let bits := (toBits k ++ List.replicate (8 * n) false).take (8 * n)
  packBits (bits.set keyLen val)

/-- `advanceKeyToRight` (iterator.go:276): first `nbd` bits of the key, then a 1 bit. -/
def keyAdvanceRight (k : Bytes) (nbd : Nat) : Bytes :=
  packBits ((toBits k).take nbd ++ [true])

def keyGetBit (k : Bytes) (i : Nat) : Bool := (toBits k).getD i false

structure ItOut where
  found : Option (Bytes × Bytes)
  pos : List Atom                 -- atoms appended by this call, deepest first
  b : Builder

/-- `takeFirst` (iterator.go:283): the key is at least as long as the node's path but below it. -/
def takeFirstB (nbd : Nat) (newPath : Bits) (key : Bytes) : Bool :=
  decide (nbd > 0) && decide (8 * key.length ≥ nbd) && decide (key < packBits newPath)

/-- `keyNotLonger` (iterator.go:284). -/
def keyNotLongerB (nbd : Nat) (key : Bytes) : Bool := decide (8 * key.length ≤ nbd)

/-- `tryNext`: when the child found an item, remember where to resume in the parent. -/
def pushOut (a : Atom) (o : ItOut) : ItOut :=
  if o.found.isSome then ⟨o.found, o.pos ++ [a], o.b⟩ else ⟨none, [], o.b⟩

/-- Try the node's own leaf (`tryNext(n.LeafNode, key, visitAt)`, only in `visitBefore`); the leaf
pointer is dereferenced, hence included, whenever it is tried. -/
def leafStage (self : Atom) (lf : Option (Bytes × Bytes)) (hlf : Bytes) (nbd : Nat) (newPath : Bits)
    (key : Bytes) (b : Builder) : ItOut :=
  if keyNotLongerB nbd key || takeFirstB nbd newPath key then
    match lf with
    | none => ⟨none, [], b⟩
    | some (k, v) =>
      let b := b.includeLeaf hlf k v
      if k < key then ⟨none, [], b⟩ else ⟨some (k, v), [{ self with st := .at }], b⟩
  else ⟨none, [], b⟩

/-- The body of `case visitAt` (iterator.go:298-312), reached from `visitBefore` by fallthrough.
`goL`/`goR` are `doNext` on the left/right child in state `visitBefore`. -/
def fromAtStage (self : Atom) (nbd : Nat) (newPath : Bits) (key : Bytes)
    (goL goR : Bytes → Builder → ItOut) (b : Builder) : ItOut :=
  let tf := takeFirstB nbd newPath key
  let key := if keyNotLongerB nbd key then keyAppendBit key nbd false else key
  let goLeft := !keyGetBit key nbd || tf
  let viaLeft : ItOut := if goLeft then pushOut { self with st := .atLeft } (goL key b) else ⟨none, [], b⟩
  if viaLeft.found.isSome then viaLeft else
  let key := if goLeft then keyAdvanceRight key nbd else key
  pushOut { self with st := .after } (goR key viaLeft.b)

/-- `treeIterator.doNext` (iterator.go:256). `d` = `bitDepth`, `path` = the bits of `path`. -/
def doNext (ver : Nat) : HTrie → Nat → Bits → Bytes → VState → Builder → ItOut
  | .nil, _, _, _, _, b => ⟨none, [], b⟩
  | .leaf h k v, _, _, key, _, b =>
    let b := b.includeLeaf h k v
    if k < key then ⟨none, [], b⟩ else ⟨some (k, v), [], b⟩
  | .node h lab lf hlf l r, d, path, key, st, b =>
    let self : Atom := ⟨.node h lab lf hlf l r, d, path, st⟩
    let b := b.includeNode ver h lab lf
    let nbd := d + lab.length
    let newPath := path ++ lab
    let goL := fun k b => doNext ver l nbd newPath k .before b
    let goR := fun k b => doNext ver r nbd newPath k .before b
    match st with
    | .before =>
      let o := leafStage self lf hlf nbd newPath key b
      if o.found.isSome then o else fromAtStage self nbd newPath key goL goR o.b
    | .at => fromAtStage self nbd newPath key goL goR b
    | .atLeft => pushOut { self with st := .after } (goR (keyAdvanceRight key nbd) b)
    | .after => ⟨none, [], b⟩

/-- Iterator state: current item, resume stack (deepest first), the proof builder. -/
structure Iter where
  cur : Option (Bytes × Bytes) := none
  pos : List Atom := []
  b : Builder := {}

/-- `Seek` (iterator.go:195). -/
def itSeek (ver : Nat) (root : HTrie) (key : Bytes) (b : Builder) : Iter :=
  let o := doNext ver root 0 [] key .before b
  ⟨o.found, o.pos, o.b⟩

/-- The loop of `Next` (iterator.go:214-246) over the resume stack. -/
def itNextLoop (ver : Nat) (key : Bytes) : List Atom → Builder → Iter
  | [], b => ⟨none, [], b⟩
  | a :: rest, b =>
    let o := doNext ver a.t a.d a.path key a.st b
    if o.found.isSome then ⟨o.found, o.pos ++ rest, o.b⟩ else itNextLoop ver key rest o.b

def itNext (ver : Nat) (it : Iter) : Iter :=
  match it.cur with
  | none => it
  | some (k, _) => itNextLoop ver k it.pos it.b

/-! ### proofs for iteration and prefix requests (the other two `ReadSyncer` methods) -/

def itAdvance (ver : Nat) : Nat → Iter → Iter
  | 0, it => it
  | n + 1, it => if it.cur.isSome then itAdvance ver n (itNext ver it) else it

/-- `SyncIterate` (iterator.go:14): seek, then `prefetch` times `Next` while valid. -/
def proofIterate (eh : Bytes) (ver : Nat) (key : Bytes) (prefetch : Nat) (root : HTrie) : MProof :=
  let it := itAdvance ver prefetch (itSeek ver root key {})
  build eh ver it.b.incl root

def isPrefixB : Bytes → Bytes → Bool
  | [], _ => true
  | _ :: _, [] => false
  | a :: as, b :: bs => a == b && isPrefixB as bs

/-- The inner loop of `SyncGetPrefixes` (prefetch.go:99-107); returns the iterator, the running total
and whether the limit stopped the whole request. -/
def prefixInner (ver : Nat) (limit : Nat) (pfx : Bytes) : Nat → Iter → Nat → Iter × Nat × Bool
  | 0, it, total => (it, total, false)
  | n + 1, it, total =>
    match it.cur with
    | none => (it, total, false)
    | some (k, _) =>
      if total ≥ limit then (it, total, true)
      else if !isPrefixB pfx k then (it, total, false)
      else prefixInner ver limit pfx n (itNext ver it) (total + 1)

def prefixOuter (ver : Nat) (limit : Nat) (root : HTrie) (fuel : Nat) : List Bytes → Builder → Nat → Builder
  | [], b, _ => b
  | pfx :: rest, b, total =>
    let it := itSeek ver root pfx b
    let r := prefixInner ver limit pfx fuel it total
    if r.2.2 then r.1.b else prefixOuter ver limit root fuel rest r.1.b r.2.1

/-! ### the sequential chunker -/

/-- Number of stored keys: the fuel of the loops below (they advance by one key per step). -/
def HTrie.count : HTrie → Nat
  | .nil => 0
  | .leaf _ _ _ => 1
  | .node _ _ lf _ l r => (if lf.isSome then 1 else 0) + l.count + r.count

/-- `SyncGetPrefixes` (prefetch.go:55): one iterator (one builder) over all prefixes. -/
def proofPrefixes (eh : Bytes) (ver : Nat) (prefixes : List Bytes) (limit : Nat) (root : HTrie) : MProof :=
  build eh ver (prefixOuter ver limit root (root.count + 1) prefixes {} 0).incl root

/-- `for it.Seek(offset); it.Valid() && Size() < chunkSize; it.Next() {}` -/
def seqFill (chunkSize : Nat) : Nat → Iter → Iter
  | 0, it => it
  | n + 1, it => if it.cur.isSome && decide (it.b.size < chunkSize) then seqFill chunkSize n (itNext 0 it) else it

/-- `seqChunker.createChunk` (chunk.go:89) with explicit loop fuel: the included set of the chunk's
proof builder when the proof is built, and the next offset. -/
def seqChunkI (fuel : Nat) (chunkSize : Nat) (root : HTrie) (offset : Bytes) : List Bytes × Option Bytes :=
  let it := seqFill chunkSize fuel (itSeek 0 root offset {})
  let next := if it.cur.isSome then (itNext 0 it).cur.map (·.1) else none
  (it.b.incl, next)

/-- The fuel of the loops of the sequential chunker: they advance by one key per step (shown sufficient
in OasisProofs/Helpers/MkvsChunkSeq.lean: more fuel never changes the result). -/
def seqFuel (root : HTrie) : Nat := root.count + 1

/-- `seqChunker.createChunk`: the chunk's entries and the next offset. -/
def seqChunk (eh : Bytes) (chunkSize : Nat) (root : HTrie) (offset : Bytes) : List (Option Bytes) × Option Bytes :=
  let c := seqChunkI (seqFuel root) chunkSize root offset
  ((build eh 0 c.1 root).entries, c.2)

/-- The included sets of all chunks, with explicit fuels (inner loop, outer loop). -/
def seqInclsF (fuel : Nat) (chunkSize : Nat) (root : HTrie) : Nat → Bytes → List (List Bytes)
  | 0, _ => []
  | n + 1, offset =>
    let c := seqChunkI fuel chunkSize root offset
    match c.2 with
    | none => [c.1]
    | some next => c.1 :: seqInclsF fuel chunkSize root n next

def seqLoop (eh : Bytes) (chunkSize : Nat) (root : HTrie) : Nat → Bytes → List (List (Option Bytes))
  | 0, _ => []
  | n + 1, offset =>
    let c := seqChunk eh chunkSize root offset
    match c.2 with
    | none => [c.1]
    | some next => c.1 :: seqLoop eh chunkSize root n next

/-- `seqChunker.chunk` (chunk.go:52): the chunk list (entries of each V0 proof). -/
def seqChunks (eh : Bytes) (chunkSize : Nat) (root : HTrie) : List (List (Option Bytes)) :=
  seqLoop eh chunkSize root (seqFuel root) []

/-! ### the parallel chunker -/

/-- `pathAtom{nd, visitState}` of subtree.go; `nd = none` is the nil node of an empty root. The own
leaf of an internal node is pushed as a leaf node. The four states are visitBefore, visitAt,
visitAtLeft, visitAtRight (here `.after`). -/
structure PAtom where
  nd : HTrie            -- `.nil` = nil node
  st : VState
  deriving Repr, Inhabited

/-- `subtree{path, pending}`; `pending` has its top (last element in Go) at the head. -/
structure Subtree where
  path : List HTrie := []
  pending : List PAtom := []
  deriving Repr, Inhabited

/-- `visitNext(ptr)`: a nil pointer pushes nothing. -/
def pushChild (pending : List PAtom) (t : HTrie) : List PAtom :=
  match t with
  | .nil => pending
  | t => ⟨t, .before⟩ :: pending

/-- `newSubtree`: the root pointer is never nil; an empty root pushes the nil node. -/
def newSubtree (root : HTrie) : Subtree := { path := [], pending := [⟨root, .before⟩] }

/-- The main loop of `nextChunk` (subtree.go:117-160). -/
def nextChunkLoop (chunkSize : Nat) : Nat → List PAtom → Builder → Bool → List PAtom × Builder
  | 0, pending, b, _ => (pending, b)
  | n + 1, pending, b, lastIsLeaf =>
    match pending with
    | [] => ([], b)
    | last :: rest =>
      if decide (b.size ≥ chunkSize) && lastIsLeaf then (pending, b) else
      let b := b.includeH 0 last.nd
      match last.nd with
      | .nil => nextChunkLoop chunkSize n rest b lastIsLeaf
      | .leaf _ _ _ => nextChunkLoop chunkSize n rest b true
      | .node _ _ lf hlf l r =>
        match last.st with
        | .before =>
          let p := ⟨last.nd, .at⟩ :: rest
          let p := match lf with
            | none => p
            | some (k, v) => ⟨.leaf hlf k v, .before⟩ :: p
          nextChunkLoop chunkSize n p b false
        | .at => nextChunkLoop chunkSize n (pushChild (⟨last.nd, .atLeft⟩ :: rest) l) b lastIsLeaf
        | .atLeft => nextChunkLoop chunkSize n (pushChild (⟨last.nd, .after⟩ :: rest) r) b lastIsLeaf
        | .after => nextChunkLoop chunkSize n rest b lastIsLeaf

def isNilH : HTrie → Bool
  | .nil => true
  | _ => false

/-- `trim` (subtree.go:173). -/
def trim : List PAtom → List PAtom
  | [] => []
  | last :: rest =>
    match last.nd with
    | .nil => trim rest
    | .leaf _ _ _ => last :: rest
    | .node _ _ _ _ l r =>
      match last.st with
      | .before => last :: rest
      | .at => if !isNilH l || !isNilH r then last :: rest else trim rest
      | .atLeft => if !isNilH r then last :: rest else trim rest
      | .after => trim rest

/-- Number of nodes (internal, leaf, own leaf): bound for the work loops. -/
def HTrie.nodes : HTrie → Nat
  | .nil => 0
  | .leaf _ _ _ => 1
  | .node _ _ lf _ l r => 1 + (if lf.isSome then 1 else 0) + l.nodes + r.nodes

/-- `subtree.nextChunk` with explicit loop fuel: the chunk's entries and the subtree afterwards (trimmed). -/
def nextChunkF (fuel : Nat) (eh : Bytes) (chunkSize : Nat) (root : HTrie) (s : Subtree) :
    List (Option Bytes) × Subtree :=
  let b0 : Builder := s.path.foldl (fun b n => b.includeH 0 n) {}
  -- Go includes `pending` from the bottom of the stack to the top
  let b1 : Builder := s.pending.reverse.foldl (fun b pa => b.includeH 0 pa.nd) b0
  let r := nextChunkLoop chunkSize fuel s.pending b1 false
  ((build eh 0 r.2.incl root).entries, { s with pending := trim r.1 })

/-- The fuel of all work loops of the parallel chunker (shown sufficient in
OasisProofs/Helpers/MkvsChunkTerm.lean: more fuel never changes the result). -/
def parFuel (root : HTrie) : Nat := 4 * root.nodes + 8

def nextChunk (eh : Bytes) (chunkSize : Nat) (root : HTrie) (s : Subtree) : List (Option Bytes) × Subtree :=
  nextChunkF (parFuel root) eh chunkSize root s

/-- `addTask` of `split` (subtree.go:225): a nil child gives no task. -/
def childTask (path : List HTrie) (parent child : HTrie) : List Subtree :=
  match child with
  | .nil => []
  | c => [{ path := path ++ [parent], pending := [⟨c, .before⟩] }]

/-- `subtree.split` (subtree.go:211): 0, 1 or 2 tasks. `pending.getLast` is Go's `pending[0]`. -/
def splitSub (s : Subtree) : List Subtree :=
  match s.pending.reverse with
  | [] => []
  | subroot :: above =>          -- `above` = pending[1:], bottom to top
    match subroot.nd with
    | .node _ _ _ _ l r =>
      let mk (child : HTrie) : List Subtree := childTask s.path subroot.nd child
      match subroot.st with
      | .before | .at =>
        if isNilH l && isNilH r then [s] else mk l ++ mk r
      | .atLeft =>
        if above.isEmpty then [s]
        else mk r ++ [{ path := s.path ++ [subroot.nd], pending := above.reverse }]
      | .after => [{ path := s.path ++ [subroot.nd], pending := above.reverse }]
    | _ => [s]

/-- One pass of the inner loop of `splitTasks` (chunk.go:199-209): `none` = the early return. -/
def splitPass (threads : Nat) : List Subtree → List Subtree → List Subtree × Bool
  | [], acc => (acc, false)
  | task :: rest, acc =>
    if acc.length + (task :: rest).length ≥ threads then (acc ++ task :: rest, true)
    else splitPass threads rest (acc ++ splitSub task)

def splitTasksN (threads : Nat) : Nat → List Subtree → List Subtree
  | 0, tasks => tasks
  | n + 1, tasks =>
    let r := splitPass threads tasks []
    if r.2 then r.1 else splitTasksN threads n r.1

/-- `parallelChunker.splitTasks` (ten passes). -/
def splitTasks (threads : Nat) (tasks : List Subtree) : List Subtree := splitTasksN threads 10 tasks

/-- `createChunks` + `filterFinished` for one round. -/
def parRoundF (fuel : Nat) (eh : Bytes) (chunkSize : Nat) (root : HTrie) (tasks : List Subtree) :
    List (List (Option Bytes)) × List Subtree :=
  let rs := tasks.map (nextChunkF fuel eh chunkSize root)
  (rs.map (·.1), (rs.map (·.2)).filter (fun s => !s.pending.isEmpty))

def parLoopF (fuel : Nat) (eh : Bytes) (chunkSize threads : Nat) (root : HTrie) :
    Nat → List Subtree → List (List (Option Bytes))
  | 0, _ => []
  | n + 1, pending =>
    if pending.isEmpty then [] else
    let tasks := splitTasks threads pending
    let r := parRoundF fuel eh chunkSize root tasks
    r.1 ++ parLoopF fuel eh chunkSize threads root n r.2

def parRound (eh : Bytes) (chunkSize : Nat) (root : HTrie) (tasks : List Subtree) :
    List (List (Option Bytes)) × List Subtree := parRoundF (parFuel root) eh chunkSize root tasks

def parLoop (eh : Bytes) (chunkSize threads : Nat) (root : HTrie) : Nat → List Subtree → List (List (Option Bytes)) :=
  parLoopF (parFuel root) eh chunkSize threads root

/-- `parallelChunker.chunk` (chunk.go:161). -/
def parChunks (eh : Bytes) (chunkSize threads : Nat) (root : HTrie) : List (List (Option Bytes)) :=
  parLoop eh chunkSize threads root (parFuel root) [newSubtree root]

/-! ### restoring -/

/-- Hashes of the nodes `doRestoreChunk` writes (`PutNode` on every materialised node; hash-only
pointers are only visited). -/
def PT.nodeHashes (H : Bytes → Bytes) : PT → List Bytes
  | .nil => []
  | .hash _ => []
  | .leaf k v => [H (leafEnc k v)]
  | .node bits label lf l r =>
    (PT.node bits label lf l r).hashOf H :: (lf.nodeHashes H ++ (l.nodeHashes H ++ r.nodeHashes H))

/-- All node hashes of a tree (what the database holds for the root). -/
def Trie.nodeHashes (H : Bytes → Bytes) : Trie → List Bytes
  | .nil => []
  | .leaf k v => [H (leafEnc k v)]
  | .node lab lf l r =>
    hashWith H (.node lab lf l r) ::
      ((match lf with
        | none => []
        | some (k, v) => [H (leafEnc k v)]) ++ (l.nodeHashes H ++ r.nodeHashes H))

/-- The node hashes a chunk imports when it verifies against `root` (nothing otherwise). -/
def chunkNodes (H : Bytes → Bytes) (root : Bytes) (c : List (Option Bytes)) : List Bytes :=
  match verifyProof H root { v := 0, untrusted := root, entries := c } with
  | .ok s => s.nodeHashes H
  | .error _ => []

/-- Executable cover predicate: every node of the tree is materialised by some chunk. -/
def coverB (H : Bytes → Bytes) (root : Bytes) (t : Trie) (cs : List (List (Option Bytes))) : Bool :=
  let all := cs.flatMap (chunkNodes H root)
  (t.nodeHashes H).all (fun h => all.contains h)

inductive RErr
  | noRestore | inProgress | alreadyRestored | chunkNotFound | corrupted | proofFailed
  deriving Repr, DecidableEq

/-- A chunk as it arrives: did the digest over its bytes match the metadata, and the decoded entries
(`none`: the bytes did not decode). -/
structure ChunkData where
  digestOk : Bool
  entries : Option (List (Option Bytes))

/-- `restoreChunk` (chunk.go:249): digest, decode, verify (V0 proof against the checkpoint root),
import. On any error nothing is imported. -/
def restoreChunkM (H : Bytes → Bytes) (root : Bytes) (db : List Bytes) (c : ChunkData) : Except RErr (List Bytes) :=
  if !c.digestOk then .error .corrupted else
  match c.entries with
  | none => .error .proofFailed
  | some es =>
    match verifyProof H root { v := 0, untrusted := root, entries := es } with
    | .error _ => .error .proofFailed
    | .ok s => .ok (s.nodeHashes H ++ db)

/-- `restorer` (restorer.go): the checkpoint being restored (number of chunks) and the pending set. -/
structure Restorer where
  current : Option Nat := none
  pending : List Nat := []
  db : List Bytes := []
  /-- Identity of the checkpoint metadata object of the restore in progress (Go compares the
  `*Metadata` pointers, restorer.go phase 2): every `StartRestore` is a new generation. -/
  gen : Nat := 0

def rsStart (rs : Restorer) (nchunks : Nat) : Except RErr Restorer :=
  match rs.current with
  | some _ => .error .inProgress
  | none => .ok { rs with current := some nchunks, pending := List.range nchunks, gen := rs.gen + 1 }

def rsAbort (rs : Restorer) : Restorer := { rs with current := none, pending := [] }

/-- `RestoreChunk(idx, r)`: result = (done, new state) or the error and the state after it
(a proof failure aborts the restore; other errors leave it in progress). -/
def rsRestoreChunk (H : Bytes → Bytes) (root : Bytes) (rs : Restorer) (idx : Nat) (c : ChunkData) :
    Except RErr Bool × Restorer :=
  match rs.current with
  | none => (.error .noRestore, rs)
  | some n =>
    if !rs.pending.contains idx then (.error .alreadyRestored, rs)
    else if idx ≥ n then (.error .chunkNotFound, rs)
    else
      match restoreChunkM H root rs.db c with
      | .error .proofFailed => (.error .proofFailed, rsAbort rs)
      | .error e => (.error e, rs)
      | .ok db =>
        let pending := rs.pending.filter (· ≠ idx)
        if pending.isEmpty then (.ok true, { rs with current := none, pending := [], db := db })
        else (.ok false, { rs with pending := pending, db := db })

/-! ### `RestoreChunk` under concurrent callers (restorer.go:66-116)

Phase 1 runs under the restorer's lock: a restore must be in progress and the chunk pending; the call
remembers which restore it saw. The import (`restoreChunk`) runs outside the lock. Phase 2 runs under
the lock again: if the restore in progress is no longer the one phase 1 saw (aborted, completed, or
aborted and restarted) the call returns `ErrNoRestoreInProgress`; otherwise the index is removed from
the pending set and completion is reported when the set is empty. Several callers can be between the
phases. (Before commit 3c2e444 phase 2 did not look at the restore in progress: `rsFinishOld` in
OasisProofs/Props/C12.lean.) -/

/-- Phase 1: returns the generation of the restore it saw. -/
def rsBegin (rs : Restorer) (idx : Nat) : Except RErr Nat :=
  match rs.current with
  | none => .error .noRestore
  | some n =>
    if !rs.pending.contains idx then .error .alreadyRestored
    else if idx ≥ n then .error .chunkNotFound
    else .ok rs.gen

/-- Import + phase 2 of a call that saw generation `seen` in phase 1. -/
def rsFinish (H : Bytes → Bytes) (root : Bytes) (rs : Restorer) (idx : Nat) (seen : Nat) (c : ChunkData) :
    Except RErr Bool × Restorer :=
  match restoreChunkM H root rs.db c with
  | .error .proofFailed => (.error .proofFailed, rsAbort rs)
  | .error e => (.error e, rs)
  | .ok db =>
    if rs.current.isNone || rs.gen != seen then (.error .noRestore, { rs with db := db })
    else
      let pending := rs.pending.filter (· ≠ idx)
      if pending.isEmpty then (.ok true, { rs with current := none, pending := [], db := db })
      else (.ok false, { rs with pending := pending, db := db })

/-- Events of a session with concurrent callers. -/
inductive CEvent
  | start (n : Nat)
  | abort
  | begin (idx : Nat)
  | finish (idx : Nat) (seen : Nat) (c : ChunkData)

/-- Restorer plus the calls that are between their two phases (index, generation seen). -/
structure CState where
  rs : Restorer := {}
  inflight : List (Nat × Nat) := []

/-- One event; the second component is what a `RestoreChunk` call returns when it ends here. -/
def cStep (H : Bytes → Bytes) (root : Bytes) (s : CState) : CEvent → CState × Option (Except RErr Bool)
  | .start n =>
    match rsStart s.rs n with
    | .ok rs' => ({ s with rs := rs' }, none)
    | .error _ => (s, none)
  | .abort => ({ s with rs := rsAbort s.rs }, none)
  | .begin idx =>
    match rsBegin s.rs idx with
    | .ok g => ({ s with inflight := (idx, g) :: s.inflight }, none)
    | .error e => (s, some (.error e))
  | .finish idx seen c =>
    if s.inflight.contains (idx, seen) then
      let r := rsFinish H root s.rs idx seen c
      ({ rs := r.2, inflight := s.inflight.erase (idx, seen) }, some r.1)
    else (s, none)

def cRun (H : Bytes → Bytes) (root : Bytes) (s : CState) (evs : List CEvent) : CState :=
  evs.foldl (fun s e => (cStep H root s e).1) s

/-- Driver helper: restore the given chunk list in the given order (indices may repeat or be out of
range); returns the number of distinct imported node hashes and whether the restore completed. -/
def restoreRun (H : Bytes → Bytes) (root : Bytes) (chunks : List (List (Option Bytes))) (order : List Nat) :
    Nat × Bool :=
  let rs0 : Restorer := { current := some chunks.length, pending := List.range chunks.length }
  let r := order.foldl (fun (acc : Restorer × Bool) i =>
    match chunks[i]? with
    | none => acc
    | some es =>
      let o := rsRestoreChunk H root acc.1 i { digestOk := true, entries := some es }
      match o.1 with
      | .ok done => (o.2, acc.2 || done)
      | .error _ => (o.2, acc.2)) (rs0, false)
  (r.1.db.eraseDups.length, r.2)

end OasisModel.Mkvs
