import OasisModel.Mkvs.Trie
/-
Lazily loaded MKVS tree with failing fetches (C02/C03: failure atomicity of writes).  Core Lean only.

The pure model `Trie` (Trie.lean) works on fully resolved trees and returns a new tree, so it cannot
say what is left in memory when `doInsert`/`doRemove` return an error half way.  The real tree holds
`*node.Pointer`s whose `Node` may be absent (only `Hash` set); `cache.derefNodePtr` (cache.go:327-390)
then reads the node from the NodeDB (cache.go:365) or from the remote syncer (cache.go:377) and that
can FAIL; `doInsert`/`doRemove` write into the node objects while they recurse.

Mirrors go/storage/mkvs:
  * `LT`                 the in-memory pointer graph below one `*node.Pointer`: `stub h` is a pointer
                         with `Node == nil` and hash/id `h` (node/node.go `Pointer{Clean,Hash,Node}`)
  * `Oracle`             what a fetch of id `h` gives at one moment; `none` = the fetch fails
  * `LT.deref`           cache.go:327-390 `derefNodePtr`: a resident pointer is returned as it is, an
                         absent one is fetched and the node is ATTACHED to the pointer (`ptr.Node = n`,
                         cache.go:368) — the memory changes, the contents do not
  * `LT.doInsert`        insert.go:66-255
  * `LT.doRemove`        remove.go:63-201 (the code after fix dd71025: slot selection, prefetch of both
                         children, recursion, assignment only on success, re-dereference, collapse)
  * `LT.doRemoveOld`     remove.go before dd71025 (`git -C /repo show dd71025`): the result of the
                         recursive call is assigned to the child pointer BEFORE the error check, the
                         siblings are fetched only AFTER the child has been removed
  * `LT.insert/remove/removeOld`  tree.Insert (insert.go:12-58) / RemoveExisting (remove.go:11-55):
                         `setPendingRoot(newRoot)` only on success; on error the root pointer stays
Every write function returns a `…Res`: `fail mem` = an error was returned and `mem` is the subtree as
it is in memory below the pointer it was called on; `ok newRoot …` = success, the caller stores
`newRoot` into the slot (on success the old pointer object is reachable only through `newRoot`).

Modelling decisions (stated, not hidden):
  * the embedded leaf of an internal node is data of the node (`lf`), as in `Trie`: "the leaf node is
    always included with the internal node" (remove.go:123, node.go UnmarshalBinary); the recursive
    call on `n.LeafNode` (insert.go:106, remove.go:95/114) therefore never fetches and is unrolled.
    The evicted-embedded-leaf refetch of cache.go:341-353 is not modelled (known finding D1b);
  * fuel: the recursion continues into FETCHED nodes, which are not subterms; running out of fuel is
    an error return, like the `ctx.Err() != nil` return at the head of both functions
    (insert.go:73, remove.go:69) — a cancelled context stops the descent at any depth;
  * a fetch that yields no node (`some (stub _)`) is the error of cache.go:381-383;
  * time: `doRemove` dereferences `n.Left`/`n.Right` a second time after the recursive call
    (remove.go:126-133).  Between the two the node cache may have evicted the prefetched sibling
    (`evict = true`: the pointer is a stub again) and the second fetch asks the oracle as it is THEN
    (`refetch`).  `Oracle.Stable fetch refetch` says a fetch that succeeded succeeds again with the
    same node.
-/
namespace OasisModel.Mkvs

/-- In-memory subtree below one pointer; `stub h` = pointer whose node is not resident. -/
inductive LT where
  | nil
  | stub (h : Nat)
  | leaf (k v : Bytes)
  | node (label : Bits) (lf : Option (Bytes × Bytes)) (l r : LT)
  deriving Repr, DecidableEq, Inhabited

/-- Fetch oracle (NodeDB read / remote sync): `none` = the fetch fails. -/
abbrev Oracle := Nat → Option LT

/-- A later oracle that repeats every successful answer of an earlier one (deterministic store). -/
def Oracle.Stable (fetch refetch : Oracle) : Prop := ∀ h t, fetch h = some t → refetch h = some t

namespace LT

def isStub : LT → Bool
  | .stub _ => true
  | _ => false

def isNil : LT → Bool
  | .nil => true
  | _ => false

/-- A fully resident tree. -/
def ofTrie : Trie → LT
  | .nil => .nil
  | .leaf k v => .leaf k v
  | .node lab lf l r => .node lab lf (ofTrie l) (ofTrie r)

/-- `derefNodePtr` (cache.go:327): the pointer as it is in memory afterwards (node attached), or
`none` when the fetch fails / brings no node (cache.go:374, 378, 382, 385). -/
def deref (fetch : Oracle) : LT → Option LT
  | .stub h =>
    match fetch h with
    | none => none
    | some t => if t.isStub then none else some t
  | t => some t

/-! ### relations between memory states -/

/-- `Unfolds fetch a b`: `b` is `a` with some non-resident pointers replaced by what the oracle
gives for them (and so on below).  This is all a failed write may do to the memory. -/
inductive Unfolds (fetch : Oracle) : LT → LT → Prop
  | refl (t : LT) : Unfolds fetch t t
  | fetch {h : Nat} {t t' : LT} : fetch h = some t → Unfolds fetch t t' → Unfolds fetch (.stub h) t'
  | node {lab : Bits} {lf : Option (Bytes × Bytes)} {l l' r r' : LT} :
      Unfolds fetch l l' → Unfolds fetch r r' → Unfolds fetch (.node lab lf l r) (.node lab lf l' r')

/-- Equality up to fetching: the least equivalence, compatible with `node`, that identifies a stub
with what the oracle resolves it to. -/
inductive sameUpToFetch (fetch : Oracle) : LT → LT → Prop
  | refl (t : LT) : sameUpToFetch fetch t t
  | symm {a b : LT} : sameUpToFetch fetch a b → sameUpToFetch fetch b a
  | trans {a b c : LT} : sameUpToFetch fetch a b → sameUpToFetch fetch b c → sameUpToFetch fetch a c
  | fetch {h : Nat} {t : LT} : fetch h = some t → sameUpToFetch fetch (.stub h) t
  | node {lab : Bits} {lf : Option (Bytes × Bytes)} {l l' r r' : LT} :
      sameUpToFetch fetch l l' → sameUpToFetch fetch r r' →
      sameUpToFetch fetch (.node lab lf l r) (.node lab lf l' r')

/-- `Resolves fetch t T`: every pointer reachable in `t` resolves and the resolved tree is `T`. -/
inductive Resolves (fetch : Oracle) : LT → Trie → Prop
  | nil : Resolves fetch .nil .nil
  | leaf (k v : Bytes) : Resolves fetch (.leaf k v) (.leaf k v)
  | fetch {h : Nat} {t : LT} {T : Trie} : fetch h = some t → Resolves fetch t T → Resolves fetch (.stub h) T
  | node {lab : Bits} {lf : Option (Bytes × Bytes)} {l r : LT} {L R : Trie} :
      Resolves fetch l L → Resolves fetch r R → Resolves fetch (.node lab lf l r) (.node lab lf L R)

/-- `Reach fetch t k v`: the binding `(k, v)` is stored in `t` and a reader can get to it (every
fetch on the way succeeds). -/
inductive Reach (fetch : Oracle) : LT → Bytes → Bytes → Prop
  | leaf (k v : Bytes) : Reach fetch (.leaf k v) k v
  | own {lab : Bits} {l r : LT} (k v : Bytes) : Reach fetch (.node lab (some (k, v)) l r) k v
  | left {lab : Bits} {lf : Option (Bytes × Bytes)} {l r : LT} {k v : Bytes} :
      Reach fetch l k v → Reach fetch (.node lab lf l r) k v
  | right {lab : Bits} {lf : Option (Bytes × Bytes)} {l r : LT} {k v : Bytes} :
      Reach fetch r k v → Reach fetch (.node lab lf l r) k v
  | fetch {h : Nat} {t : LT} {k v : Bytes} : fetch h = some t → Reach fetch t k v → Reach fetch (.stub h) k v

/-- Executable denotation: the resolved trie, if everything reachable resolves within `fuel` levels. -/
def denote (fetch : Oracle) : Nat → LT → Option Trie
  | 0, _ => none
  | _ + 1, .nil => some .nil
  | _ + 1, .leaf k v => some (.leaf k v)
  | n + 1, .stub h =>
    match fetch h with
    | none => none
    | some t => denote fetch n t
  | n + 1, .node lab lf l r =>
    match denote fetch n l, denote fetch n r with
    | some L, some R => some (.node lab lf L R)
    | _, _ => none

/-- All bindings a reader can get to within `fuel` levels; a failed fetch contributes nothing
(executable companion of `Reach`, used by the witnesses). -/
def visible (fetch : Oracle) : Nat → LT → List (Bytes × Bytes)
  | 0, _ => []
  | _ + 1, .nil => []
  | _ + 1, .leaf k v => [(k, v)]
  | n + 1, .stub h =>
    match fetch h with
    | none => []
    | some t => visible fetch n t
  | n + 1, .node _ lf l r => lf.toList ++ (visible fetch n l ++ visible fetch n r)

/-! ### doInsert (insert.go:66-255) -/

inductive InsRes where
  /-- error returned; `mem` = the subtree in memory below the pointer the call was made on -/
  | fail (mem : LT)
  /-- `insertResult{newRoot, existed}` -/
  | ok (newRoot : LT) (existed : Bool)
  deriving Repr, DecidableEq, Inhabited

def doInsert (fetch : Oracle) (k v : Bytes) : Nat → LT → Nat → InsRes
  | 0, t, _ => .fail t                                   -- insert.go:73-75 (ctx.Err)
  | fuel + 1, t, d =>
    match deref fetch t with                             -- insert.go:78
    | none => .fail t                                    -- insert.go:79-81: nothing written yet
    | some (.stub _) => .fail t                          -- (deref never returns a stub)
    | some .nil => .ok (.leaf k v) false                 -- insert.go:86-94
    | some (.leaf k' v') =>
      -- insert.go:183-251: only the resident leaf and freshly created nodes are involved, no
      -- fetch; the result is the one of the pure model (overwrite / split of the leaf's key).
      let res := Trie.insertAux k v (.leaf k' v') d
      .ok (ofTrie res.1) res.2
    | some (.node lab lf l r) =>
      let kb := (toBits k).drop d
      let cp := lcp lab kb                               -- insert.go:96
      if cp = lab.length then                            -- insert.go:99
        let bl := d + lab.length
        match (toBits k).drop bl with
        | [] =>
          -- insert.go:103-106,118-119: recursion on the embedded leaf pointer, which is resident:
          -- no fetch, cannot fail; as in `Trie.insertAux` the slot is overwritten.
          .ok (.node lab (some (k, v)) l r)
            (match lf with
             | some (k', _) => decide (k' = k)
             | none => false)
        | true :: _ =>
          match doInsert fetch k v fuel r bl with        -- insert.go:109
          | .fail r' => .fail (.node lab lf l r')        -- insert.go:114-116: returns BEFORE `n.Right =`
          | .ok nr ex => .ok (.node lab lf l nr) ex      -- insert.go:121, 138
        | false :: _ =>
          match doInsert fetch k v fuel l bl with        -- insert.go:111
          | .fail l' => .fail (.node lab lf l' r)
          | .ok nl ex => .ok (.node lab lf nl r) ex      -- insert.go:123, 138
      else
        -- insert.go:142-182: split the edge; writes `n.Label`, creates two nodes, fetches nothing.
        let pre := lab.take cp
        let suf := lab.drop cp
        let old := LT.node suf lf l r                    -- insert.go:145-146
        let t' :=
          match kb.drop cp with
          | [] =>
            match suf with
            | true :: _ => .node pre (some (k, v)) .nil old
            | _ => .node pre (some (k, v)) old .nil
          | true :: _ => .node pre none old (.leaf k v)
          | false :: _ => .node pre none (.leaf k v) old
        .ok t' false

/-- `tree.Insert` (insert.go:12-58): the tree in memory afterwards and the result (`none` = error,
`some existed` = success).  `setPendingRoot(result.newRoot)` (insert.go:56) only on success. -/
def insert (fetch : Oracle) (fuel : Nat) (t : LT) (k v : Bytes) : LT × Option Bool :=
  match doInsert fetch k v fuel t 0 with
  | .fail mem => (mem, none)
  | .ok nr ex => (nr, some ex)

/-! ### doRemove (remove.go:63-201) -/

inductive RmRes where
  /-- error returned; `mem` = the subtree in memory below the pointer the call was made on -/
  | fail (mem : LT)
  /-- `(newRoot, changed, existing, nil)` -/
  | ok (newRoot : LT) (changed : Bool) (existing : Option Bytes)
  deriving Repr, DecidableEq, Inhabited

/-- Label merge of the collapse (remove.go:156-168); the child is resident (it was dereferenced). -/
def prependLabel (lab : Bits) : LT → LT
  | .node lab2 lf l r => .node (lab ++ lab2) lf l r
  | t => t

/-- remove.go:135-188 once `remainingLeft`/`remainingRight` are there: collapse a node with a single
remaining child, else keep it. Same case split as `Trie.collapse`. -/
def collapse (lab : Bits) (lf : Option (Bytes × Bytes)) (l r : LT) (changed : Bool) : LT × Bool :=
  match lf, l, r with
  | some (k1, v1), .nil, .nil => (.leaf k1 v1, true)     -- remove.go:136-141
  | none, l, .nil => (prependLabel lab l, true)          -- remove.go:142-173 (remainingLeft != nil or both nil)
  | none, .nil, r => (prependLabel lab r, true)
  | lf, l, r => (.node lab lf l r, changed)              -- remove.go:176-188

/-- remove.go:121-188, executed AFTER the slot has been written: "fetch and check the remaining
children" and collapse.  `l0`/`r0` are the child pointers as they were before the prefetch, `l1`/`r1`
as they are after it (resident).  With `evict` the cache has dropped the prefetched nodes during the
recursive call, so the pointers are as before and are fetched from the later oracle `refetch`. -/
def finishRemove (refetch : Oracle) (evict : Bool) (lab : Bits) (lf : Option (Bytes × Bytes))
    (l0 l1 r0 r1 : LT) (changed : Bool) (existing : Option Bytes) : RmRes :=
  let lq := if evict then l0 else l1
  let rq := if evict then r0 else r1
  match deref refetch lq with                            -- remove.go:126
  | none => .fail (.node lab lf lq rq)                   -- remove.go:127-129: error AFTER `*child = newChild`
  | some l2 =>
    match deref refetch rq with                          -- remove.go:130
    | none => .fail (.node lab lf l2 rq)                 -- remove.go:131-133
    | some r2 =>
      let c := collapse lab lf l2 r2 changed
      .ok c.1 c.2 existing

def doRemove (fetch refetch : Oracle) (evict : Bool) (k : Bytes) : Nat → LT → Nat → RmRes
  | 0, t, _ => .fail t                                   -- remove.go:69-71 (ctx.Err)
  | fuel + 1, t, d =>
    match deref fetch t with                             -- remove.go:74
    | none => .fail t                                    -- remove.go:75-77
    | some (.stub _) => .fail t                          -- (deref never returns a stub)
    | some .nil => .ok .nil false none                   -- remove.go:80-82
    | some (.leaf k' v') =>                              -- remove.go:189-197
      if k' = k then .ok .nil true (some v') else .ok (.leaf k' v') false none
    | some (.node lab lf l r) =>
      let bl := d + lab.length                           -- remove.go:86
      let n := (toBits k).length
      if n < bl then .ok (.node lab lf l r) false none   -- remove.go:91-93
      else
        -- remove.go:94-100 selects the slot (no write); remove.go:104-109 prefetches both children.
        match deref fetch l with                         -- remove.go:104
        | none => .fail (.node lab lf l r)
        | some l1 =>
          match deref fetch r with                       -- remove.go:107
          | none => .fail (.node lab lf l1 r)
          | some r1 =>
            if n = bl then
              -- slot = &n.LeafNode; the recursive call (remove.go:114) is on a resident leaf or a
              -- nil pointer: no fetch, cannot fail; remove.go:118 writes the slot.
              match lf with
              | some (k', v') =>
                if k' = k then finishRemove refetch evict lab none l l1 r r1 true (some v')
                else finishRemove refetch evict lab lf l l1 r r1 false none
              | none => finishRemove refetch evict lab none l l1 r r1 false none
            else match (toBits k).drop bl with
              | true :: _ =>                             -- slot = &n.Right
                match doRemove fetch refetch evict k fuel r1 bl with     -- remove.go:114
                | .fail r' => .fail (.node lab lf l1 r')                 -- remove.go:115-117: slot untouched
                | .ok nr ch ex =>                                        -- remove.go:118 `*child = newChild`
                  finishRemove refetch evict lab lf l l1 nr nr ch ex
              | _ =>                                     -- slot = &n.Left
                match doRemove fetch refetch evict k fuel l1 bl with
                | .fail l' => .fail (.node lab lf l' r1)
                | .ok nl ch ex =>
                  finishRemove refetch evict lab lf nl nl r r1 ch ex

/-- `tree.RemoveExisting` (remove.go:11-55): the tree in memory afterwards and the result (`none` =
error, `some (changed, existing)` = success). `setPendingRoot(newRoot)` (remove.go:53) only on success. -/
def remove (fetch refetch : Oracle) (evict : Bool) (fuel : Nat) (t : LT) (k : Bytes) :
    LT × Option (Bool × Option Bytes) :=
  match doRemove fetch refetch evict k fuel t 0 with
  | .fail mem => (mem, none)
  | .ok nr ch ex => (nr, some (ch, ex))

/-! ### doRemove before dd71025 -/

/-- Old remove.go:104-177 after the slot has been written: the first and only fetch of the
two children. -/
def finishRemoveOld (fetch : Oracle) (lab : Bits) (lf : Option (Bytes × Bytes)) (l r : LT)
    (changed : Bool) (existing : Option Bytes) : RmRes :=
  match deref fetch l with                               -- old remove.go:110
  | none => .fail (.node lab lf l r)                     -- old remove.go:111-113: the removal is already done
  | some l2 =>
    match deref fetch r with                             -- old remove.go:114
    | none => .fail (.node lab lf l2 r)
    | some r2 =>
      let c := collapse lab lf l2 r2 changed
      .ok c.1 c.2 existing

/-- `doRemove` as it was before dd71025: `n.Right, changed, existing, err = t.doRemove(ctx, n.Right, …)`
(old remove.go:94-98) stores the returned pointer — `nil` on error — and checks `err` afterwards (old remove.go:100-102). -/
def doRemoveOld (fetch : Oracle) (k : Bytes) : Nat → LT → Nat → RmRes
  | 0, t, _ => .fail t
  | fuel + 1, t, d =>
    match deref fetch t with
    | none => .fail t
    | some (.stub _) => .fail t
    | some .nil => .ok .nil false none
    | some (.leaf k' v') =>
      if k' = k then .ok .nil true (some v') else .ok (.leaf k' v') false none
    | some (.node lab lf l r) =>
      let bl := d + lab.length
      let n := (toBits k).length
      if n < bl then .ok (.node lab lf l r) false none
      else if n = bl then
        match lf with
        | some (k', v') =>
          if k' = k then finishRemoveOld fetch lab none l r true (some v')
          else finishRemoveOld fetch lab lf l r false none
        | none => finishRemoveOld fetch lab none l r false none
      else match (toBits k).drop bl with
        | true :: _ =>
          match doRemoveOld fetch k fuel r bl with
          | .fail _ => .fail (.node lab lf l .nil)       -- `n.Right = nil`, then `if err != nil { return }`
          | .ok nr ch ex => finishRemoveOld fetch lab lf l nr ch ex
        | _ =>
          match doRemoveOld fetch k fuel l bl with
          | .fail _ => .fail (.node lab lf .nil r)       -- `n.Left = nil`, then the error return
          | .ok nl ch ex => finishRemoveOld fetch lab lf nl r ch ex

def removeOld (fetch : Oracle) (fuel : Nat) (t : LT) (k : Bytes) : LT × Option (Bool × Option Bytes) :=
  match doRemoveOld fetch k fuel t 0 with
  | .fail mem => (mem, none)
  | .ok nr ch ex => (nr, some (ch, ex))

end LT
end OasisModel.Mkvs
