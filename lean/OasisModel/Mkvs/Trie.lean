import OasisModel.Sha512_256
/-
MKVS trie model (C02, C03, C04, C12, C13 share it).  Core Lean only.

Mirrors go/storage/mkvs:
  * `Trie`            node/node.go:314 `InternalNode{Label,LabelBitLength,LeafNode,Left,Right}`, `LeafNode{Key,Value}`
  * `Trie.insertAux`  insert.go:59-247  `doInsert`   (label split, prefix-key leaf placement)
  * `Trie.removeAux`  remove.go:55-177  `doRemove`   (collapse of single-child nodes, label merge)
  * `Trie.getAux`     lookup.go:98-204  `doGet`      (never compares labels: lengths + one bit per level,
                                                      then the full-key comparison at the leaf)
  * `Trie.toList`     in-order traversal leaf, left, right (iterator.go order)
  * `hashWith`        node.go:355 `InternalNode.UpdateHash`, node.go:599 `LeafNode.UpdateHash`,
                      commit.go:150 (`nil` pointer ↦ empty hash)
  * `WFAt`/`WF`       the canonical form the Go code maintains (stated here, proved preserved in
                      OasisProofs/Helpers/MkvsTrie*.lean)

Conventions (stable; other modules build on them):
  * keys and values are byte strings `Bytes = List UInt8`; leaves store the *full* key, like Go;
  * the bit string of a key is `toBits k`, most significant bit of each byte first (key.go `GetBit`);
  * labels are bit lists `Bits = List Bool`; Go stores them as (bytes, bit length) with zero padding:
    `packBits` gives those bytes;
  * `d : Nat` arguments are Go's `bitDepth`: the number of key bits consumed above the node;
  * an internal node's `lf` is the leaf whose key ends exactly at that node (Go `LeafNode` pointer,
    which is always nil or a leaf);
  * a child's label (or leaf key remainder) *includes* the discriminating bit: Go descends with
    `bitDepth + LabelBitLength` and tests `key.GetBit(bitLength)` without consuming it.
Domain: Go's `Depth` is `uint16`, so keys are shorter than 8192 bytes; value lengths fit `uint32`.
-/
namespace OasisModel.Mkvs

abbrev Bytes := List UInt8
abbrev Bits := List Bool

/-! ### bits of keys (node/key.go) -/

/-- The `w` low bits of `n`, most significant first. -/
def natBits : Nat → Nat → Bits
  | 0, _ => []
  | w + 1, n => decide (n / 2 ^ w % 2 = 1) :: natBits w n

/-- Bits of one byte, most significant first (`GetBit`: `k[bit/8] & (1 << (7 - bit%8))`). -/
def byteBits (b : UInt8) : Bits := natBits 8 b.toNat

/-- Bit string of a key. `Key.BitLength` = `(toBits k).length` = `8 * k.length`. -/
def toBits (k : Bytes) : Bits := k.flatMap byteBits

/-- Value of a bit list read as a big-endian binary number. -/
def bitsToNat : Bits → Nat
  | [] => 0
  | b :: bs => b.toNat * 2 ^ bs.length + bitsToNat bs

/-- One byte from up to 8 bits, zero padded on the right. -/
def byteOfBits (c : Bits) : UInt8 := UInt8.ofNat (bitsToNat (c ++ List.replicate (8 - c.length) false))

/-- `packBits` with fuel (the fuel is the number of bits left). -/
def packBitsAux : Nat → Bits → Bytes
  | 0, _ => []
  | n + 1, bs => if bs = [] then [] else byteOfBits (bs.take 8) :: packBitsAux n (bs.drop 8)

/-- Bytes of a bit string, 8 bits per byte, zero padded at the end (how Go stores labels:
`Depth.ToBytes` bytes, unused low bits of the last byte cleared). -/
def packBits (bs : Bits) : Bytes := packBitsAux bs.length bs

/-- Length of the common prefix (`Key.CommonPrefixLen`). -/
def lcp : Bits → Bits → Nat
  | a :: as, b :: bs => if a = b then lcp as bs + 1 else 0
  | _, _ => 0

/-! ### the tree -/

inductive Trie where
  | nil
  | leaf (k v : Bytes)
  | node (label : Bits) (lf : Option (Bytes × Bytes)) (l r : Trie)
  deriving Repr, DecidableEq, Inhabited

namespace Trie

def isNil : Trie → Bool
  | .nil => true
  | _ => false

/-- In-order contents: the node's own leaf, then the left subtree, then the right subtree. -/
def toList : Trie → List (Bytes × Bytes)
  | .nil => []
  | .leaf k v => [(k, v)]
  | .node _ lf l r => lf.toList ++ (l.toList ++ r.toList)

/-- `doGet` (lookup.go:98). `d` is `bitDepth`. -/
def getAux (k : Bytes) : Trie → Nat → Option Bytes
  | .nil, _ => none
  | .leaf k' v', _ => if k' = k then some v' else none
  | .node lab lf l r, d =>
    let bl := d + lab.length
    let n := (toBits k).length
    if n = bl then
      match lf with
      | some (k', v') => if k' = k then some v' else none
      | none => none
    else if n < bl then none
    else match (toBits k).drop bl with
      | true :: _ => getAux k r bl
      | _ => getAux k l bl

def get (t : Trie) (k : Bytes) : Option Bytes := getAux k t 0

/-- `doInsert` (insert.go:59). Returns the new subtree and Go's `existed` flag. -/
def insertAux (k v : Bytes) : Trie → Nat → Trie × Bool
  | .nil, _ => (.leaf k v, false)
  | .leaf k' v', d =>
    if k' = k then (.leaf k v, true)
    else
      let kb := (toBits k).drop d
      let lb := (toBits k').drop d
      let cp := lcp lb kb
      let pre := lb.take cp
      let t :=
        match kb.drop cp, lb.drop cp with
        | [], true :: _ => .node pre (some (k, v)) .nil (.leaf k' v')   -- new key is a prefix of the old
        | [], _ => .node pre (some (k, v)) (.leaf k' v') .nil
        | true :: _, [] => .node pre (some (k', v')) .nil (.leaf k v)    -- old key is a prefix of the new
        | false :: _, [] => .node pre (some (k', v')) (.leaf k v) .nil
        | true :: _, _ :: _ => .node pre none (.leaf k' v') (.leaf k v)
        | false :: _, _ :: _ => .node pre none (.leaf k v) (.leaf k' v')
      (t, false)
  | .node lab lf l r, d =>
    let kb := (toBits k).drop d
    let cp := lcp lab kb
    if cp = lab.length then
      let bl := d + lab.length
      match (toBits k).drop bl with
      | [] =>
        -- key ends exactly here: goes into the node's own leaf slot.
        -- (If `lf` held a different key Go would split that leaf; impossible in a `WF` tree,
        --  see `WFAt`: the slot's key is the node's path.)
        (.node lab (some (k, v)) l r,
          match lf with
          | some (k', _) => decide (k' = k)
          | none => false)
      | true :: _ =>
        let res := insertAux k v r bl
        (.node lab lf l res.1, res.2)
      | false :: _ =>
        let res := insertAux k v l bl
        (.node lab lf res.1 r, res.2)
    else
      -- split the edge at cp
      let pre := lab.take cp
      let suf := lab.drop cp
      let old := Trie.node suf lf l r
      let t :=
        match kb.drop cp with
        | [] =>
          match suf with
          | true :: _ => .node pre (some (k, v)) .nil old
          | _ => .node pre (some (k, v)) old .nil
        | true :: _ => .node pre none old (.leaf k v)
        | false :: _ => .node pre none (.leaf k v) old
      (t, false)

def insert (t : Trie) (k v : Bytes) : Trie := (insertAux k v t 0).1

/-- Label merge done when a node with a single remaining child is collapsed (remove.go:131-147). -/
def prependLabel (lab : Bits) : Trie → Trie
  | .node lab2 lf l r => .node (lab ++ lab2) lf l r
  | t => t

/-- Collapse step of `doRemove` (remove.go:107-165): executed after every descent through an
internal node, whether or not something was removed. Returns the subtree and Go's `changed`. -/
def collapse (lab : Bits) (lf : Option (Bytes × Bytes)) (l r : Trie) (changed : Bool) : Trie × Bool :=
  match lf, l, r with
  | some (k1, v1), .nil, .nil => (.leaf k1 v1, true)
  | none, l, .nil => (prependLabel lab l, true)
  | none, .nil, r => (prependLabel lab r, true)
  | lf, l, r => (.node lab lf l r, changed)

/-- `doRemove` (remove.go:55). Returns new subtree, `changed`, and the previous value. -/
def removeAux (k : Bytes) : Trie → Nat → Trie × Bool × Option Bytes
  | .nil, _ => (.nil, false, none)
  | .leaf k' v', _ => if k' = k then (.nil, true, some v') else (.leaf k' v', false, none)
  | .node lab lf l r, d =>
    let bl := d + lab.length
    let n := (toBits k).length
    if n < bl then (.node lab lf l r, false, none)
    else if n = bl then
      match lf with
      | some (k', v') =>
        if k' = k then
          let c := collapse lab none l r true
          (c.1, c.2, some v')
        else
          let c := collapse lab lf l r false
          (c.1, c.2, none)
      | none =>
        let c := collapse lab none l r false
        (c.1, c.2, none)
    else match (toBits k).drop bl with
      | true :: _ =>
        let res := removeAux k r bl
        let c := collapse lab lf l res.1 res.2.1
        (c.1, c.2, res.2.2)
      | _ =>
        let res := removeAux k l bl
        let c := collapse lab lf res.1 r res.2.1
        (c.1, c.2, res.2.2)

def remove (t : Trie) (k : Bytes) : Trie := (removeAux k t 0).1

/-- Previous value returned by `RemoveExisting`. -/
def removeExisting (t : Trie) (k : Bytes) : Trie × Option Bytes :=
  let r := removeAux k t 0
  (r.1, r.2.2)

def ofList (kvs : List (Bytes × Bytes)) : Trie := kvs.foldl (fun t kv => t.insert kv.1 kv.2) .nil

/-- Height of the tree in nodes (a leaf has height 1): used by drivers as a size measure. -/
def depth : Trie → Nat
  | .nil => 0
  | .leaf _ _ => 1
  | .node _ _ l r => 1 + max l.depth r.depth

end Trie

/-! ### canonical form -/

/-- Every key stored below `t` satisfies `P`. -/
def Trie.AllKeys (P : Bytes → Prop) (t : Trie) : Prop := ∀ kv ∈ t.toList, P kv.1

/-- Canonical form of a subtree whose path from the root is `p` (so `p.length` is Go's `bitDepth`).
  * a leaf's key extends the path;
  * an internal node's own leaf has exactly the node's path `p ++ label` as key;
  * keys in the left (right) subtree continue that path with bit 0 (1);
  * at least two of {own leaf, left, right} are present (otherwise `doRemove` would have collapsed
    the node and `doInsert` would never have created it).
The root is `WFAt []`; only there the label may be empty (a consequence, not a clause). -/
def WFAt : Bits → Trie → Prop
  | _, .nil => True
  | p, .leaf k _ => p <+: toBits k
  | p, .node lab lf l r =>
    (∀ kv, lf = some kv → toBits kv.1 = p ++ lab) ∧
    WFAt (p ++ lab) l ∧ l.AllKeys (fun k => (p ++ lab) ++ [false] <+: toBits k) ∧
    WFAt (p ++ lab) r ∧ r.AllKeys (fun k => (p ++ lab) ++ [true] <+: toBits k) ∧
    2 ≤ lf.isSome.toNat + (!l.isNil).toNat + (!r.isNil).toNat

def WF (t : Trie) : Prop := WFAt [] t

/-- Executable check of `WFAt` (used by drivers and `decide`-style examples). -/
def wfAtB : Bits → Trie → Bool
  | _, .nil => true
  | p, .leaf k _ => p.isPrefixOf (toBits k)
  | p, .node lab lf l r =>
    (match lf with
     | some kv => toBits kv.1 == p ++ lab
     | none => true) &&
    wfAtB (p ++ lab) l && l.toList.all (fun kv => ((p ++ lab) ++ [false]).isPrefixOf (toBits kv.1)) &&
    wfAtB (p ++ lab) r && r.toList.all (fun kv => ((p ++ lab) ++ [true]).isPrefixOf (toBits kv.1)) &&
    decide (2 ≤ lf.isSome.toNat + (!l.isNil).toNat + (!r.isNil).toNat)

/-! ### hash encodings (node.go:355, node.go:599) -/

def u16le (n : Nat) : Bytes := [UInt8.ofNat (n % 256), UInt8.ofNat (n / 256 % 256)]

def u32le (n : Nat) : Bytes :=
  [UInt8.ofNat (n % 256), UInt8.ofNat (n / 256 % 256), UInt8.ofNat (n / 65536 % 256), UInt8.ofNat (n / 16777216 % 256)]

/-- Hash input of a leaf: `0x00 ‖ u32le |key| ‖ key ‖ u32le |value| ‖ value`. -/
def leafEnc (k v : Bytes) : Bytes := 0x00 :: (u32le k.length ++ (k ++ (u32le v.length ++ v)))

/-- Hash input of an internal node:
`0x01 ‖ u16le labelBitLength ‖ label bytes ‖ H(own leaf) ‖ H(left) ‖ H(right)`. -/
def nodeEnc (lab : Bits) (hlf hl hr : Bytes) : Bytes :=
  0x01 :: (u16le lab.length ++ (packBits lab ++ (hlf ++ (hl ++ hr))))

/-- Hash of an optional embedded leaf: a nil pointer hashes to the empty hash `H ""`. -/
def hashLeafOpt (H : Bytes → Bytes) : Option (Bytes × Bytes) → Bytes
  | none => H []
  | some (k, v) => H (leafEnc k v)

/-- Merkle hash of a subtree with hash function `H` (`doCommit`, commit.go:150-242). -/
def hashWith (H : Bytes → Bytes) : Trie → Bytes
  | .nil => H []
  | .leaf k v => H (leafEnc k v)
  | .node lab lf l r => H (nodeEnc lab (hashLeafOpt H lf) (hashWith H l) (hashWith H r))

/-- The actual root hash, with the real SHA-512/256. -/
def rootHash (t : Trie) : Bytes := hashWith Sha512_256.hash t

/-- Size bounds under which the length fields of the encodings do not wrap
(keys < 8192 bytes because `Depth` is `uint16`; values < 2^32 bytes). -/
def Trie.Bounded : Trie → Prop
  | .nil => True
  | .leaf k v => k.length < 2 ^ 13 ∧ v.length < 2 ^ 32
  | .node lab lf l r =>
    lab.length < 2 ^ 16 ∧ (∀ kv, lf = some kv → kv.1.length < 2 ^ 13 ∧ kv.2.length < 2 ^ 32) ∧
    l.Bounded ∧ r.Bounded

end OasisModel.Mkvs
