import OasisModel.NodeDB.Driver
-- C06/C07 node database
def main : IO Unit := OasisModel.NodeDB.Driver.main
