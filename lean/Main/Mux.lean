import OasisModel.Mux.Driver
-- C01 proposal cache
def main : IO Unit := OasisModel.Mux.Driver.main
