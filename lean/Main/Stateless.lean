import OasisModel.Stateless.Driver
-- C19 stateless verification
def main : IO Unit := OasisModel.Stateless.Driver.main
