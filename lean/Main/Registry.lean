import OasisModel.Registry.Driver
-- C17 registry index
def main : IO Unit := OasisModel.Registry.Driver.main
