import OasisModel.Scheduler.Driver
-- C14 elections
def main : IO Unit := OasisModel.Scheduler.Driver.main
