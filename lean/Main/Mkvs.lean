import OasisModel.Mkvs.Driver
-- C02/C03/C13 trie, overlay, write log
def main : IO Unit := OasisModel.Mkvs.Driver.main
