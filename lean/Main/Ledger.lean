import OasisModel.Staking.LedgerDriver
-- C05/C08/C10 staking ledger
def main : IO Unit := OasisModel.Staking.LedgerDriver.main
