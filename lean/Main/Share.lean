import OasisModel.Staking.ShareDriver
-- C15 share pool arithmetic
def main : IO Unit := OasisModel.Staking.ShareDriver.main
