import OasisModel.Upgrade.Driver
-- C01 node-local upgrade manager
def main : IO Unit := OasisModel.Upgrade.Driver.main
