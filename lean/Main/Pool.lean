import OasisModel.Roothash.Driver
-- C11 commitment pool
def main : IO Unit := OasisModel.Roothash.Driver.main
