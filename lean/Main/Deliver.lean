import OasisModel.Handlers.DeliverDriver
-- C08 delivery model as a checker of observations on the real multiplexer (txdrv)
def main : IO Unit := OasisModel.Handlers.DeliverDriver.main
