import OasisModel.Codec.Driver
-- C16 decoders
def main : IO Unit := OasisModel.Codec.Driver.main
