import OasisModel.Pcs.Driver
-- C18 quote verification
def main : IO Unit := OasisModel.Pcs.Driver.main
