import OasisModel.Auth.Driver
-- C09 signature contexts, nonces
def main : IO Unit := OasisModel.Auth.Driver.main
