import OasisModel.Roothash.SlashDriver
-- C10 slashed-funds distribution
def main : IO Unit := OasisModel.Roothash.SlashDriver.main
