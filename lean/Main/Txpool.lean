import OasisModel.TxPool.Driver
-- C20 runtime txpool scheduler
def main : IO Unit := OasisModel.TxPool.Driver.main
