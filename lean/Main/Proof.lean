import OasisModel.Mkvs.ProofDriver
-- C04/C12 proofs and checkpoints
def main : IO Unit := OasisModel.Mkvs.ProofDriver.main
