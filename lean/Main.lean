import OasisModel.TxPool.Driver

def main (args : List String) : IO UInt32 := do
  match args with
  | ["txpool"] => OasisModel.TxPool.Driver.main; return 0
  | _ => IO.eprintln "usage: oasis_model <mode>"; return 2
