"""
Driver for /verif/check: decides one property on /repo's current working tree.

Pipeline (DESIGN.md §2):
  regen -> prove (lake build of the property's theorem module) -> audit (#print axioms,
  forbidden tokens) -> correspondence / spec-on-implementation drivers (Go, -tags verif,
  built from /repo's working tree) -> classify -> evidence.

Exit status 0: property held on everything explored (KNOWN-FINDING lines may be printed).
Exit status 1: `VIOLATION property=<id> replay=<path>` printed.
"""
import hashlib
import importlib.util
import json
import os
import re
import shutil
import subprocess
import sys
import time

VERIF = os.path.dirname(os.path.dirname(os.path.abspath(__file__)))
REPO = os.environ.get("VERIF_REPO", "/repo")
LEAN = os.path.join(VERIF, "lean")
HARNESS = os.path.join(VERIF, "harness")
BIN = os.path.join(HARNESS, "bin")
GEN = os.path.join(VERIF, "tools", "gen")
ALLOWED_AXIOMS = {"propext", "Classical.choice", "Quot.sound"}
FORBIDDEN = re.compile(r"\bsorry\b|\badmit\b|^\s*axiom\s|native_decide|bv_decide|implemented_by|\bunsafe\s|maxHeartbeats\s+0")

GOENV = dict(os.environ, GOFLAGS="-mod=mod", GOPROXY="off")
GOENV.pop("GOSUMDB", None)
GOENV.pop("GOTOOLCHAIN", None)


def log(*a):
    print("[check]", *a, file=sys.stderr, flush=True)


def run(cmd, cwd=None, env=None, timeout=None, input=None):
    t0 = time.time()
    p = subprocess.run(cmd, cwd=cwd, env=env, timeout=timeout, input=input,
                       stdout=subprocess.PIPE, stderr=subprocess.STDOUT, text=True)
    return p.returncode, p.stdout, time.time() - t0


def lake(args, timeout=None):
    """Run lake in /verif/lean under a lock (concurrent lake builds in one workspace race)."""
    import fcntl
    os.makedirs(os.path.join(LEAN, ".lake"), exist_ok=True)
    with open(os.path.join(LEAN, ".lake", "verif.lock"), "w") as lk:
        fcntl.flock(lk, fcntl.LOCK_EX)
        return run(["lake"] + args, cwd=LEAN, timeout=timeout)


def model_targets(cfg):
    return ["om_" + m for m in cfg.get("models", [])]


def load_config(pid):
    path = os.path.join(VERIF, "checks", pid + ".py")
    spec = importlib.util.spec_from_file_location("cfg_" + pid, path)
    mod = importlib.util.module_from_spec(spec)
    spec.loader.exec_module(mod)
    return mod.CONFIG


# ----------------------------------------------------------------------------- regen

def regen(cfg, state):
    """Regenerate lean/Generated/*.lean from /repo's working tree (tools/gen)."""
    gens = cfg.get("regen", [])
    if not gens:
        return True, ""
    os.makedirs(BIN, exist_ok=True)
    shutil.copy(os.path.join(REPO, "go", "go.sum"), os.path.join(GEN, "go.sum")) if os.path.exists(os.path.join(GEN, "go.mod")) else None
    rc, out, _ = run(["go", "build", "-o", os.path.join(BIN, "gen"), "."], cwd=GEN, env=GOENV)
    if rc != 0:
        return False, "tools/gen does not build:\n" + out
    for g in gens:
        target = os.path.join(LEAN, "Generated", g["out"])
        if os.path.exists(target):
            os.remove(target)
        rc, out, _ = run([os.path.join(BIN, "gen"), g["kind"], "-repo", REPO, "-out", target] + g.get("args", []), cwd=GEN, env=GOENV)
        if rc != 0 or not os.path.exists(target):
            return False, "generator %s failed (source outside the translatable subset?):\n%s" % (g["kind"], out)
        state.setdefault("generated", []).append(g["out"])
    return True, ""


# ----------------------------------------------------------------------------- prove + audit

def extra_modules(cfg):
    """Additional audited theorem modules: [{"file": "OasisProofs/Props/X.lean", "namespace": "OasisProofs.X"}]."""
    out = []
    for e in cfg.get("extra_theorem_files", []):
        mod = e.get("module") or e["file"][:-5].replace("/", ".")
        out.append((e["file"], e.get("namespace", mod.replace(".Props.", ".")), mod))
    return out


def theorem_names(pid, cfg):
    """Names of the theorems in Props/<pid>.lean and the extra theorem files (the obligations)."""
    path = os.path.join(LEAN, "OasisProofs", "Props", pid + ".lean")
    src = open(path).read()
    ns = cfg.get("namespace", "OasisProofs." + pid)
    names = [ns + "." + n for n in re.findall(r"^theorem\s+([A-Za-z_][A-Za-z0-9_'.]*)", src, re.M)]
    for f, ens, _mod in extra_modules(cfg):
        esrc = open(os.path.join(LEAN, f)).read()
        names += [ens + "." + n for n in re.findall(r"^theorem\s+([A-Za-z_][A-Za-z0-9_'.]*)", esrc, re.M)]
    return names, src


def strip_comments(src):
    src = re.sub(r"/-.*?-/", "", src, flags=re.S)
    src = re.sub(r"--.*", "", src)
    return src


def lean_sources_for(pid, cfg):
    files = [os.path.join(LEAN, "OasisProofs", "Props", pid + ".lean")]
    files += [os.path.join(LEAN, f) for f, _, _ in extra_modules(cfg)]
    for rel in cfg.get("lean_sources", []):
        p = os.path.join(LEAN, rel)
        if os.path.isdir(p):
            for root, _, fs in os.walk(p):
                files += [os.path.join(root, f) for f in fs if f.endswith(".lean")]
        elif os.path.exists(p):
            files.append(p)
    return files


def prove(pid, cfg, tier, state):
    """lake build of the theorem module + executable; then axiom audit."""
    mod = "OasisProofs.Props." + pid
    mods = [mod] + [m for _, _, m in extra_modules(cfg)]
    rc, out, dt = lake(["build"] + mods + model_targets(cfg), timeout=3600)
    state["lake_build_s"] = round(dt, 1)
    if rc != 0:
        m = re.findall(r"error: ([^\n]*)", out)
        broken = re.findall(r"(OasisProofs/[A-Za-z0-9_/]+\.lean:\d+:\d+)", out)
        return False, {"stage": "prove", "what": "lake build %s failed" % mod,
                       "broken_at": broken[:5], "errors": m[:8], "log_tail": out[-3000:]}
    names, _ = theorem_names(pid, cfg)
    state["theorems"] = names
    # forbidden tokens
    bad = []
    for f in lean_sources_for(pid, cfg):
        for i, line in enumerate(strip_comments(open(f).read()).split("\n")):
            if FORBIDDEN.search(line):
                bad.append("%s:%d: %s" % (os.path.relpath(f, LEAN), i + 1, line.strip()[:80]))
    if bad:
        return False, {"stage": "audit", "what": "forbidden token in proof sources", "hits": bad[:10]}
    # axioms
    audit = os.path.join(LEAN, ".lake", "audit_%s.lean" % pid)
    os.makedirs(os.path.dirname(audit), exist_ok=True)
    with open(audit, "w") as f:
        for m in mods:
            f.write("import %s\n" % m)
        for n in names:
            f.write("#print axioms %s\n" % n)
    rc, out, _ = lake(["env", "lean", audit], timeout=1800)
    if rc != 0:
        return False, {"stage": "audit", "what": "#print axioms failed", "log_tail": out[-2000:]}
    axioms = {}
    for m in re.finditer(r"'([^']+)' (does not depend on any axioms|depends on axioms: \[([^\]]*)\])", out.replace("\n", " ")):
        axioms[m.group(1)] = [] if m.group(3) is None else [a.strip() for a in m.group(3).split(",")]
    state["axioms"] = axioms
    offending = {n: a for n, a in axioms.items() if not set(a) <= ALLOWED_AXIOMS}
    missing = [n for n in names if n not in axioms]
    if offending or missing:
        return False, {"stage": "audit", "what": "axiom audit", "offending": offending, "missing": missing}
    if tier == "thorough" and cfg.get("leanchecker", True):
        rc, out, dt = lake(["env", "leanchecker", mod], timeout=3600)
        state["leanchecker_s"] = round(dt, 1)
        state["leanchecker_rc"] = rc
        if rc != 0:
            return False, {"stage": "audit", "what": "leanchecker rejected " + mod, "log_tail": out[-2000:]}
    return True, None


# ----------------------------------------------------------------------------- drivers

def build_driver(name):
    os.makedirs(BIN, exist_ok=True)
    shutil.copy(os.path.join(REPO, "go", "go.sum"), os.path.join(HARNESS, "go.sum"))
    rc, out, dt = run(["go", "build", "-tags", "verif", "-o", os.path.join(BIN, name), "./cmd/" + name],
                      cwd=HARNESS, env=GOENV, timeout=3600)
    return rc == 0, out, dt


def run_driver(pid, d, tier, seed, state, extra=None):
    """Build and run one Go driver; returns (ok, result-dict or error)."""
    name = d["name"]
    ok, out, dt = build_driver(name)
    if not ok:
        return None, {"stage": "harness-build", "what": "go build -tags verif ./cmd/%s failed against /repo" % name,
                      "log_tail": out[-3000:]}
    scratch = os.path.join(os.environ.get("TMPDIR", "/tmp"), "verif-%s-%d" % (pid, os.getpid()))
    os.makedirs(scratch, exist_ok=True)
    resfile = os.path.join(scratch, name + ".json")
    args = [os.path.join(BIN, name), "-seed", str(seed), "-out", resfile] + d.get(tier, []) + (extra or [])
    corpus = os.path.join(VERIF, "corpus", pid)
    if d.get("corpus", True) and os.path.isdir(corpus) and not extra:
        args += ["-corpus", corpus]
    env = dict(GOENV, VERIF_MODEL_DIR=os.path.join(LEAN, ".lake", "build", "bin"), VERIF_TIER=tier,
               VERIF_SCRATCH=scratch, TMPDIR=scratch)
    try:
        rc, out, dt = run(args, cwd=HARNESS, env=env, timeout=d.get("timeout_" + tier, 3000))
    except subprocess.TimeoutExpired:
        shutil.rmtree(scratch, ignore_errors=True)
        return None, {"stage": "driver", "what": "%s timed out" % name}
    res = None
    if os.path.exists(resfile):
        try:
            res = json.load(open(resfile))
        except Exception:
            res = None
    shutil.rmtree(scratch, ignore_errors=True)
    if res is None:
        return None, {"stage": "driver", "what": "%s crashed (rc=%d) without a result" % (name, rc), "log_tail": out[-3000:]}
    res["wall_s"] = round(dt, 1)
    return res, None


# ----------------------------------------------------------------------------- findings

def load_known():
    known, fixed = [], []
    path = os.path.join(VERIF, "known-findings.txt")
    if os.path.exists(path):
        for line in open(path):
            line = line.strip()
            if line.startswith("known:"):
                m = re.match(r"known:\s+property=(\S+)\s+sig=(\S+)\s+(.*)", line)
                if m:
                    known.append({"property": m.group(1), "sig": m.group(2), "what": m.group(3)})
            elif line.startswith("fixed:"):
                fixed.append(line)
    return known, fixed


def write_replay(pid, payload):
    os.makedirs(os.path.join(VERIF, "replays"), exist_ok=True)
    blob = json.dumps(payload, sort_keys=True, indent=1)
    h = hashlib.sha256(blob.encode()).hexdigest()[:10]
    path = os.path.join(VERIF, "replays", "%s-%s.json" % (pid, h))
    with open(path, "w") as f:
        f.write(blob)
    return path


# ----------------------------------------------------------------------------- main

def main(argv):
    import argparse
    ap = argparse.ArgumentParser()
    ap.add_argument("pid")
    ap.add_argument("--tier", default=os.environ.get("VERIF_TIER", "quick"))
    ap.add_argument("--replay")
    a = ap.parse_args(argv)
    pid, tier = a.pid, a.tier
    if tier not in ("quick", "thorough"):
        tier = "quick"
    seed = int(os.environ.get("VERIF_SEED", "1") or "1")
    cfg = load_config(pid)
    t0 = time.time()
    state = {}
    broken = []       # broken obligations / ties (no concrete input by themselves)
    failures = []     # concrete failing inputs
    results = []

    if a.replay:
        rp = json.load(open(a.replay))
        drv = rp.get("driver")
        d = next((x for x in cfg["drivers"] if x["name"] == drv), None)
        if d is None or not rp.get("case"):
            print(json.dumps(rp, indent=1))
            return 0
        tmp = os.path.join(os.environ.get("TMPDIR", "/tmp"), "verif-replay-%d.txt" % os.getpid())
        open(tmp, "w").write("\n".join(rp["case"]) + "\n")
        lake(["build"] + model_targets(cfg))
        res, err = run_driver(pid, d, tier, seed, state, extra=["-replay", tmp])
        os.remove(tmp)
        if err:
            print(json.dumps(err, indent=1))
            return 2
        for f in (res.get("failures") or []):
            print("REPLAY-FAILS: %s: %s" % (f["kind"], f["detail"]))
        if not res.get("failures"):
            print("REPLAY-PASSES")
        return 1 if res.get("failures") else 0

    ok, msg = regen(cfg, state)
    if not ok:
        broken.append({"stage": "regen", "what": msg[-3000:]})
    if ok:
        ok, err = prove(pid, cfg, tier, state)
        if not ok:
            broken.append(err)
    # The drivers need the model executable; if the theorem module broke, still try to build it.
    if broken and model_targets(cfg):
        lake(["build"] + model_targets(cfg))
    have_model = all(os.path.exists(os.path.join(LEAN, ".lake", "build", "bin", t)) for t in model_targets(cfg))

    for d in cfg.get("drivers", []):
        if not have_model and d.get("needs_model", True):
            broken.append({"stage": "driver", "what": "model executable unavailable for " + d["name"]})
            continue
        use_tier = tier
        res, err = run_driver(pid, d, use_tier, seed, state)
        if err:
            broken.append(err)
            continue
        results.append(res)
        for f in (res.get("failures") or []):
            f["driver"] = d["name"]
            failures.append(f)
    # Failing-input search after a broken obligation: run the drivers at the thorough budget.
    if broken and not failures and tier == "quick":
        for d in cfg.get("drivers", []):
            if not have_model and d.get("needs_model", True):
                continue
            res, err = run_driver(pid, d, "thorough", seed + 1000, state)
            if res:
                for f in (res.get("failures") or []):
                    f["driver"] = d["name"]
                    failures.append(f)

    known, _fixed = load_known()
    violations = 0
    printed = set()
    new_failures = []
    for f in failures:
        k = next((x for x in known if x["property"] == pid and x["sig"] == f.get("signature")), None)
        if k:
            if k["sig"] not in printed:
                printed.add(k["sig"])
                print("KNOWN-FINDING: property=%s %s" % (pid, k["what"]))
        else:
            new_failures.append(f)
    seen_sig = set()
    for f in new_failures:
        if f.get("signature") in seen_sig:
            continue
        seen_sig.add(f.get("signature"))
        path = write_replay(pid, {"property": pid, "driver": f.get("driver"), "kind": f["kind"], "detail": f["detail"],
                                  "signature": f.get("signature"), "case": f["case"], "case_seed": f.get("case_seed"),
                                  "broken_obligations": broken})
        print("VIOLATION property=%s replay=%s" % (pid, path))
        violations += 1
    if broken and not new_failures:
        path = write_replay(pid, {"property": pid, "kind": "broken-obligation", "broken_obligations": broken,
                                  "note": "a theorem, generated obligation or correspondence no longer checks; "
                                          "no concrete failing input was found by the search"})
        print("VIOLATION property=%s replay=%s no-failing-input-found" % (pid, path))
        violations += 1

    write_evidence(pid, cfg, tier, seed, state, results, broken, violations, time.time() - t0, printed)
    return 1 if violations else 0


def write_evidence(pid, cfg, tier, seed, state, results, broken, violations, wall, known_hit):
    names = state.get("theorems", [])
    gen_obl = cfg.get("generated_obligations", 0)
    obligations = len(names) + gen_obl
    discharged = 0 if any(b.get("stage") in ("prove", "audit", "regen") for b in broken) else obligations
    evaluations = sum(r.get("cases", 0) for r in results)
    distinct = sum(r.get("distinct_nontrivial", 0) for r in results)
    samples = []
    for r in results:
        for s in (r.get("samples") or [])[:2]:
            samples.append({"driver": r["driver"], "case": s})
    if not samples:
        samples = [{"obligation": n} for n in names[:3]] or [{"note": "no case was run"}]
    level = cfg.get("level", "proof")
    cov = {
        "obligations": max(obligations, 1),
        "discharged": discharged,
        "checker_cmd": "cd /verif/lean && lake build OasisProofs.Props.%s && lake env lean .lake/audit_%s.lean  (#print axioms)%s"
                       % (pid, pid, " && lake env leanchecker OasisProofs.Props.%s" % pid if tier == "thorough" else ""),
        "trusted_base": cfg.get("trusted_base", []),
        "theorems": names,
        "axioms": state.get("axioms", {}),
        "evaluations": max(evaluations, 0),
        "distinct_nontrivial": distinct,
        "rule": "; ".join(r.get("rule", "") for r in results if r.get("rule")) or "no driver ran",
        "samples": samples,
        "drivers": [{k: r.get(k) for k in ("driver", "cases", "ops", "distinct_nontrivial", "counters", "wall_s", "exhaustive", "explanation")}
                    for r in results],
        "generated": state.get("generated", []),
        "lake_build_s": state.get("lake_build_s"),
        "explanation": cfg.get("explanation", ""),
        "broken": broken,
        "known_findings_hit": sorted(known_hit),
        "partial": cfg.get("partial", ""),
    }
    if "leanchecker_rc" in state:
        cov["leanchecker"] = {"rc": state["leanchecker_rc"], "wall_s": state.get("leanchecker_s")}
    ev = {
        "property_id": pid, "tier": tier, "seed": seed, "level": level, "coverage": cov,
        "assumptions": cfg.get("assumptions", []), "wall_s": round(wall, 1), "violations": violations,
    }
    os.makedirs(os.path.join(VERIF, "evidence"), exist_ok=True)
    with open(os.path.join(VERIF, "evidence", pid + ".json"), "w") as f:
        json.dump(ev, f, indent=1)
